#!/bin/sh
# ./run.sh <property-id> [quick|thorough]     decide one property on /repo's working tree
# ./run.sh --replay <replay.json>             re-run one recorded counterexample natively
# Exit codes: 0 nothing refuted / 1 VIOLATION (natively reproduced) / 2 HARNESS-ERROR.
cd "$(dirname "$0")" || exit 2
if [ ! -x /verif/.venv/bin/python ] || ! /verif/.venv/bin/python -c "import crosshair, z3" >/dev/null 2>&1; then
    sh ./setup.sh >/dev/null 2>&1 || { echo "HARNESS-ERROR setup failed"; exit 2; }
fi
export PYTHONPATH="/verif${PYTHONPATH:+:$PYTHONPATH}"
export PYTHONDONTWRITEBYTECODE=1
export PYTHONHASHSEED=0
exec /verif/.venv/bin/python -m sv.main "$@"
