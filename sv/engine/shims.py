"""Harness-side CrossHair compatibility patches (never touch /repo).

Registered after `crosshair.core_and_libs` is imported, because that import
resets the patch registry.
"""
import crosshair.core_and_libs  # noqa: F401
from crosshair import register_patch

SHIMS = []


def _set_union(self, *others):
    # CrossHair turns every set(...) call into a ShellMutableSet, on which the
    # unbound descriptor set.union raises TypeError.  kernpy's
    # TokenCategoryHierarchyMapper.valid does set.union(*[...]) on every dumps.
    out = set(self)
    for o in others:
        out = out | o
    return out


register_patch(set.union, _set_union)
SHIMS.append('set.union(*sets) -> loop of | (CrossHair ShellMutableSet rejects the unbound descriptor)')
