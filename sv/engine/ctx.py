"""Run context shared by obligations (set by the worker / main before anything runs)."""
import os

TIER = os.environ.get('VERIF_TIER_EFFECTIVE', 'quick')
SEED = 0
DATA = {}            # JSON-able result of the property module's setup(tier)
KF_ACTIVE = set()    # ids of open known findings whose witness still fails
KF_SEEN = set()


def thorough() -> bool:
    return TIER == 'thorough'


def pick(quick, thorough_):
    return thorough_ if TIER == 'thorough' else quick


def known(finding_id: str, cond) -> None:
    """Exclude the region of an OPEN known finding from the bound.

    No-op unless the finding is listed in known_findings.json as open AND its
    witness still fails on the current tree (DESIGN 4.6).  `cond` may be symbolic.
    """
    if finding_id in KF_ACTIVE:
        from .xh import assume
        assume(not cond)
