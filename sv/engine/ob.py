from __future__ import annotations
from dataclasses import dataclass, field
from typing import Callable, Optional


@dataclass
class Ob:
    """One proof obligation of a property (DESIGN section 5)."""
    id: str
    fn: Optional[Callable] = None            # E1: obligation over symbolic arguments
    run: Optional[Callable] = None           # E2 / native set-up obligations: run(tier) -> result dict
    engine: str = 'E1'
    title: str = ''
    shard_of: Optional[Callable] = None      # selector expression used for sharding
    shards: dict = field(default_factory=lambda: {'quick': 1, 'thorough': 1})
    budget_s: dict = field(default_factory=lambda: {'quick': 90, 'thorough': 900})
    per_path_s: float = 40.0
    witnesses: list = field(default_factory=list)   # argument dicts that must satisfy all assumes and pass
    min_confirmed: int = 1
    opaque_numbers: bool = False
    untrace: list = field(default_factory=list)     # [(module, 'Class.attr')] wrapped by untraced_if_concrete
    symbolic: str = ''       # what is truly symbolic
    enumerated: str = ''     # what the solver enumerates through selectors
    bounds: dict = field(default_factory=dict)      # tier -> text
    assumptions: list = field(default_factory=list)
    stubs: list = field(default_factory=list)
    realized_at: list = field(default_factory=list)
    describe: Optional[Callable] = None      # (**rep) -> dict with the text/options a representative denotes
    tiers: tuple = ('quick', 'thorough')
    functions_hint: list = field(default_factory=list)
    stub_optional: bool = False    # obligation rests on a stub: if no path can be confirmed (stub contract broken by a refactoring) it is INCONCLUSIVE, not an error
    native_body: bool = False      # everything after the selectors runs under @native (tracer off, concrete values): a confirmed path IS a native run, the same-process native re-run is skipped
