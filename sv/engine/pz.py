"""E2: Python-AST -> z3 translation of small arithmetic / table / set kernels.

The function's *current source* is read with inspect from the live module, parsed
with ast and interpreted over a mixed domain: concrete Python values are computed
natively, z3 terms are built for everything that depends on a symbolic input.
Supported subset (anything else raises Unsupported, never silently skipped):
constants, names, + - * // % (floor semantics: divisor must be a positive
literal), unary minus, comparisons, boolean and/or/not, conditional expressions,
if/else with return (merged into ITE), assignments, attribute access on symbolic
records, calls of environment callables, subscripts of tables, set displays,
| & - on category sets (bit-vectors), len(x) > 0, set.union(*[f(c) for c in xs]).
See DESIGN.md section 2.2.
"""
from __future__ import annotations

import ast
import inspect
import os
import subprocess
import tempfile
import textwrap
import time

import z3


class Unsupported(Exception):
    pass


# ---------------------------------------------------------------- category sets as bit-vectors
class SetBV:
    """A set over a fixed universe as a bit-vector term; Python set operators map to bit operations."""

    def __init__(self, term, universe):
        self.t = term
        self.u = universe      # list of members; index = bit

    @classmethod
    def of(cls, members, universe):
        v = 0
        for m in members:
            v |= 1 << universe.index(m)
        return cls(z3.BitVecVal(v, len(universe)), universe)

    def __or__(self, o):
        return SetBV(self.t | _bv(o, self), self.u)

    __ror__ = __or__

    def __and__(self, o):
        return SetBV(self.t & _bv(o, self), self.u)

    __rand__ = __and__

    def __sub__(self, o):
        return SetBV(self.t & ~_bv(o, self), self.u)

    def __rsub__(self, o):
        return SetBV(_bv(o, self) & ~self.t, self.u)

    def nonempty(self):
        return self.t != z3.BitVecVal(0, len(self.u))

    def member(self, m):
        i = self.u.index(m)
        return z3.Extract(i, i, self.t) == z3.BitVecVal(1, 1)

    # the read-only methods of Python's set, so that code written with them stays inside the translatable subset
    def isdisjoint(self, o):
        return (self.t & _bv(o, self)) == z3.BitVecVal(0, len(self.u))

    def issubset(self, o):
        return (self.t & ~_bv(o, self)) == z3.BitVecVal(0, len(self.u))

    def issuperset(self, o):
        return (_bv(o, self) & ~self.t) == z3.BitVecVal(0, len(self.u))

    def union(self, *os_):
        r = self
        for o in os_:
            r = r | o
        return r

    def intersection(self, *os_):
        r = self
        for o in os_:
            r = r & o
        return r

    def difference(self, *os_):
        r = self
        for o in os_:
            r = r - o
        return r

    def copy(self):
        return SetBV(self.t, self.u)

    METHODS = ('isdisjoint', 'issubset', 'issuperset', 'union', 'intersection', 'difference', 'copy')


def _bv(o, like: SetBV):
    if isinstance(o, SetBV):
        return o.t
    if isinstance(o, (set, frozenset, list, tuple)):
        return SetBV.of(o, like.u).t
    raise Unsupported(f'set operand {type(o)}')


class Len:
    def __init__(self, x):
        self.x = x


def table(d: dict, default=None):
    """ITE table over a live dict (keys concrete); a missing key yields `default`
    (a distinguished value standing for KeyError)."""
    items = list(d.items())

    def look(k):
        if not z3.is_expr(k):
            return d[k]
        e = default
        for kk, vv in items:
            vv_t = vv if z3.is_expr(vv) else (z3.IntVal(vv) if isinstance(vv, int) else z3.StringVal(vv))
            e = vv_t if e is None else z3.If(k == kk, vv_t, e)
        return e
    look.__table__ = d
    return look


class Record(dict):
    """Symbolic record: attribute access reads fields; callables are methods."""


class ClassRecord(Record):
    """A record standing for a real class (`cls` / `self`): fields given explicitly win; any OTHER method of the real class is
    translated from its current source when it is called (so a refactoring that extracts a helper method stays translatable)."""

    def __init__(self, real, fields):
        super().__init__(fields)
        self.real = real

    def method(self, name, tr):
        raw = inspect.getattr_static(self.real, name, None)
        fn = getattr(raw, '__func__', raw)
        if not inspect.isfunction(fn):
            raise Unsupported(f'record has no field {name}')
        bound = isinstance(raw, classmethod) or not isinstance(raw, staticmethod)

        def call(*args, **kw):
            node = fn_ast(fn)
            params = [a.arg for a in node.args.args]
            defaults = node.args.defaults
            env = {}
            vals = ([self] if bound else []) + list(args)
            if len(vals) > len(params):
                raise Unsupported(f'too many arguments for {name}')
            for pname, v in zip(params, vals):
                env[pname] = v
            for pname, d in zip(params[len(params) - len(defaults):], defaults):
                if pname not in env:
                    env[pname] = kw.pop(pname) if pname in kw else ast.literal_eval(d)
            for k2, v in kw.items():
                if k2 not in params:
                    raise Unsupported(f'unexpected keyword {k2} for {name}')
                env[k2] = v
            missing = [p_ for p_ in params if p_ not in env]
            if missing:
                raise Unsupported(f'missing arguments {missing} for {name}')
            sub = Tr(env, tr.universe)
            sub.globals_ = getattr(fn, '__globals__', None)
            sub.depth = getattr(tr, 'depth', 0) + 1
            if sub.depth > 6:
                raise Unsupported('helper methods nested too deeply')
            r = sub.block(node.body)
            if r is None:
                raise Unsupported(f'{name}: no return')
            return r[1]
        return call


# ---------------------------------------------------------------- interpreter
class Tr:
    def __init__(self, env, universe=None):
        self.env = dict(env)
        self.universe = universe

    # ---- expressions
    def ex(self, n):
        m = getattr(self, 'ex_' + type(n).__name__, None)
        if m is None:
            raise Unsupported(ast.dump(n)[:200])
        return m(n)

    def ex_Constant(self, n):
        return n.value

    def ex_Name(self, n):
        if n.id in self.env:
            return self.env[n.id]
        g = getattr(self, 'globals_', None) or {}
        if n.id in g and isinstance(g[n.id], (int, str, tuple, frozenset, dict)) and not isinstance(g[n.id], bool):
            return g[n.id]          # a module-level constant / table of the module under translation (read live)
        raise Unsupported(f'free name {n.id}')

    def ex_UnaryOp(self, n):
        v = self.ex(n.operand)
        if isinstance(n.op, ast.USub):
            return -v
        if isinstance(n.op, ast.Not):
            if isinstance(v, SetBV):
                return z3.Not(v.nonempty())
            if isinstance(v, Len):
                return z3.Not(v.x.nonempty())
            return z3.Not(v) if z3.is_expr(v) else (not v)
        raise Unsupported(ast.dump(n)[:100])

    def ex_BoolOp(self, n):
        vs = [self.ex(v) for v in n.values]
        if all(not z3.is_expr(v) for v in vs):
            r = vs[0]
            for v in vs[1:]:
                r = (r and v) if isinstance(n.op, ast.And) else (r or v)
            return r
        vs = [v if z3.is_expr(v) else z3.BoolVal(bool(v)) for v in vs]
        return z3.And(*vs) if isinstance(n.op, ast.And) else z3.Or(*vs)

    def ex_BinOp(self, n):
        a, b = self.ex(n.left), self.ex(n.right)
        op = n.op
        if isinstance(op, ast.Add):
            return a + b
        if isinstance(op, ast.Sub):
            return a - b
        if isinstance(op, ast.Mult):
            return a * b
        if isinstance(op, (ast.Mod, ast.FloorDiv)):
            if z3.is_expr(b) or not isinstance(b, int) or b <= 0:
                raise Unsupported('divisor must be a positive integer literal (floor semantics)')
            if not z3.is_expr(a):
                return a % b if isinstance(op, ast.Mod) else a // b
            return a % b if isinstance(op, ast.Mod) else a / b   # Int div/mod: floor for positive divisors
        if isinstance(op, ast.BitOr):
            return a | b
        if isinstance(op, ast.BitAnd):
            return a & b
        raise Unsupported(ast.dump(n)[:100])

    def ex_IfExp(self, n):
        t = self.ex(n.test)
        if isinstance(t, SetBV):
            t = t.nonempty()
        if not z3.is_expr(t):
            return self.ex(n.body) if t else self.ex(n.orelse)
        return ite(t, self.ex(n.body), self.ex(n.orelse))

    def ex_Compare(self, n):
        if len(n.ops) == 1:
            return self._cmp(self.ex(n.left), n.ops[0], self.ex(n.comparators[0]))
        # chained: a <= b <= c
        parts = []
        left = self.ex(n.left)
        for op, c in zip(n.ops, n.comparators):
            right = self.ex(c)
            parts.append(self._cmp(left, op, right))
            left = right
        if all(not z3.is_expr(p) for p in parts):
            return all(parts)
        return z3.And(*[p if z3.is_expr(p) else z3.BoolVal(bool(p)) for p in parts])

    def _cmp(self, a, op, b):
        if isinstance(a, Len):
            if isinstance(op, ast.Gt) and b == 0:
                return a.x.nonempty() if isinstance(a.x, SetBV) else len(a.x) > 0
            if isinstance(op, ast.GtE) and b == 0:
                return z3.BoolVal(True) if isinstance(a.x, SetBV) else True
            if isinstance(op, ast.Eq) and b == 0:
                return z3.Not(a.x.nonempty()) if isinstance(a.x, SetBV) else len(a.x) == 0
            if isinstance(op, ast.GtE) and b == 1:
                return a.x.nonempty() if isinstance(a.x, SetBV) else len(a.x) >= 1
            # general case: cardinality as a sum of bits
            card = z3.Sum([z3.If(a.x.member(m), 1, 0) for m in a.x.u])
            other = b.x if isinstance(b, Len) else b
            if isinstance(b, Len):
                other = z3.Sum([z3.If(b.x.member(m), 1, 0) for m in b.x.u])
            return self._cmp(card, op, other)
        if isinstance(b, Len):
            card = z3.Sum([z3.If(b.x.member(m), 1, 0) for m in b.x.u])
            return self._cmp(a, op, card)
        if isinstance(op, ast.Eq):
            return a == b
        if isinstance(op, ast.NotEq):
            return a != b
        if isinstance(op, ast.Lt):
            return a < b
        if isinstance(op, ast.LtE):
            return a <= b
        if isinstance(op, ast.Gt):
            return a > b
        if isinstance(op, ast.GtE):
            return a >= b
        if isinstance(op, ast.In) and isinstance(b, SetBV):
            return b.member(a)
        if isinstance(op, ast.NotIn) and isinstance(b, SetBV):
            return z3.Not(b.member(a))
        if isinstance(op, ast.Is):
            if z3.is_expr(a) or z3.is_expr(b) or isinstance(a, SetBV) or isinstance(b, SetBV):
                return False if (a is None or b is None) else (a is b)
            return a is b
        if isinstance(op, ast.IsNot):
            r = self._cmp(a, ast.Is(), b)
            return not r
        raise Unsupported(type(op).__name__)

    def ex_Subscript(self, n):
        tab = self.ex(n.value)
        k = self.ex(n.slice)
        if callable(tab):
            return tab(k)
        if isinstance(tab, dict) and not isinstance(tab, Record):
            return table(tab)(k)
        if isinstance(tab, (list, tuple, str)) and not z3.is_expr(k):
            return tab[k]
        raise Unsupported('subscript of ' + type(tab).__name__)

    def ex_Attribute(self, n):
        base = self.ex(n.value)
        if isinstance(base, Record):
            if n.attr not in base:
                if isinstance(base, ClassRecord):
                    return base.method(n.attr, self)
                raise Unsupported(f'record has no field {n.attr}')
            return base[n.attr]
        if isinstance(base, SetBV) and n.attr in SetBV.METHODS:
            return getattr(base, n.attr)
        if z3.is_expr(base) or isinstance(base, SetBV):
            raise Unsupported(f'attribute {n.attr} of a symbolic value')
        return getattr(base, n.attr)

    def ex_Dict(self, n):
        d = {}
        for k, v in zip(n.keys, n.values):
            kk, vv = self.ex(k), self.ex(v)
            if z3.is_expr(kk):
                raise Unsupported('symbolic dict key')
            d[kk] = vv
        return d

    def ex_Set(self, n):
        elts = [self.ex(e) for e in n.elts]
        if self.universe is None:
            return set(elts)
        return SetBV.of(elts, self.universe)

    def ex_Call(self, n):
        f = n.func
        if isinstance(f, ast.Name) and f.id == 'len' and 'len' not in self.env:
            arg = self.ex(n.args[0])
            return Len(arg) if isinstance(arg, SetBV) else len(arg)
        if isinstance(f, ast.Name) and f.id in ('bool', 'set', 'frozenset') and f.id not in self.env and len(n.args) == 1 and not n.keywords:
            arg = self.ex(n.args[0])
            if f.id == 'bool':
                if isinstance(arg, SetBV):
                    return arg.nonempty()
                if isinstance(arg, Len):
                    return arg.x.nonempty()
                return arg if z3.is_expr(arg) else bool(arg)
            if isinstance(arg, SetBV):
                return arg.copy()
            if self.universe is not None and isinstance(arg, (set, frozenset, list, tuple)):
                return SetBV.of(arg, self.universe)
            raise Unsupported(f'{f.id}() of {type(arg).__name__}')
        if (isinstance(f, ast.Name) and f.id in ('any', 'all') and f.id not in self.env and len(n.args) == 1
                and isinstance(n.args[0], (ast.GeneratorExp, ast.ListComp)) and len(n.args[0].generators) == 1
                and not n.args[0].generators[0].ifs and isinstance(n.args[0].generators[0].target, ast.Name)):
            gen = n.args[0]
            xs = self.ex(gen.generators[0].iter)
            var = gen.generators[0].target.id
            if isinstance(xs, SetBV):
                # quantifier over the members of a symbolic set: unrolled over the universe, guarded by membership
                parts = []
                for c in xs.u:
                    body = Tr({**self.env, var: c}, self.universe)
                    body.globals_ = getattr(self, 'globals_', None)
                    b = body.ex(gen.elt)
                    b = b if z3.is_expr(b) else z3.BoolVal(bool(b))
                    parts.append(z3.And(xs.member(c), b) if f.id == 'any' else z3.Implies(xs.member(c), b))
                return z3.Or(*parts) if f.id == 'any' else z3.And(*parts)
            if isinstance(xs, (list, tuple, set, frozenset)):
                parts = []
                for c in xs:
                    body = Tr({**self.env, var: c}, self.universe)
                    body.globals_ = getattr(self, 'globals_', None)
                    parts.append(body.ex(gen.elt))
                if all(not z3.is_expr(x) for x in parts):
                    return any(parts) if f.id == 'any' else all(parts)
                parts = [x if z3.is_expr(x) else z3.BoolVal(bool(x)) for x in parts]
                return z3.Or(*parts) if f.id == 'any' else z3.And(*parts)
            raise Unsupported(f'{f.id}() over {type(xs).__name__}')
        # set.union(*[elt for var in xs])
        if (isinstance(f, ast.Attribute) and f.attr == 'union' and isinstance(f.value, ast.Name) and f.value.id == 'set'
                and len(n.args) == 1 and isinstance(n.args[0], ast.Starred)
                and isinstance(n.args[0].value, (ast.ListComp, ast.GeneratorExp))):
            lc = n.args[0].value
            if len(lc.generators) != 1 or lc.generators[0].ifs or not isinstance(lc.generators[0].target, ast.Name):
                raise Unsupported('comprehension shape')
            xs = self.ex(lc.generators[0].iter)
            var = lc.generators[0].target.id
            if not isinstance(xs, SetBV):
                raise Unsupported('set.union over a non-symbolic iterable')
            acc = SetBV.of([], xs.u)
            for c in xs.u:
                sub = Tr({**self.env, var: c}, self.universe)
                sub.globals_ = getattr(self, 'globals_', None)
                body = sub.ex(lc.elt)
                if not isinstance(body, SetBV):
                    body = SetBV.of(body, xs.u)
                acc = SetBV(acc.t | z3.If(xs.member(c), body.t, z3.BitVecVal(0, len(xs.u))), xs.u)
            return acc
        fn = self.ex(f)
        args = [self.ex(a) for a in n.args]
        kw = {k.arg: self.ex(k.value) for k in n.keywords}
        if not callable(fn):
            raise Unsupported('call of non-callable')
        return fn(*args, **kw)

    # ---- statements: returns a value (merged over branches) or None if no return executed
    def block(self, stmts):
        for i, st in enumerate(stmts):
            if isinstance(st, ast.Expr) and isinstance(st.value, ast.Constant):
                continue
            if isinstance(st, ast.Assign):
                if len(st.targets) != 1 or not isinstance(st.targets[0], ast.Name):
                    raise Unsupported('assignment target')
                self.env[st.targets[0].id] = self.ex(st.value)
            elif isinstance(st, ast.AnnAssign) and isinstance(st.target, ast.Name) and st.value is not None:
                self.env[st.target.id] = self.ex(st.value)
            elif isinstance(st, ast.Return):
                return ('ret', self.ex(st.value) if st.value is not None else None)
            elif isinstance(st, ast.Raise):
                return ('ret', RAISE)
            elif isinstance(st, ast.If):
                t = self.ex(st.test)
                if isinstance(t, SetBV):
                    t = t.nonempty()
                elif isinstance(t, Len):
                    t = t.x.nonempty()
                rest = stmts[i + 1:]
                if not z3.is_expr(t):
                    return self.block((st.body if t else st.orelse) + rest)
                ta, tb = Tr(self.env, self.universe), Tr(self.env, self.universe)
                ta.globals_ = tb.globals_ = getattr(self, 'globals_', None)
                a = ta.block(st.body + rest)
                b = tb.block(st.orelse + rest)
                if a is None or b is None:
                    raise Unsupported('branch without return')
                return ('ret', ite(t, a[1], b[1]))
            elif isinstance(st, (ast.FunctionDef, ast.Pass)):
                if isinstance(st, ast.FunctionDef) and st.name not in self.env:
                    self.env[st.name] = ('localdef', st)      # a nested helper may be stubbed by pre-populating env[name]
                continue
            else:
                raise Unsupported(ast.dump(st)[:120])
        return None


RAISE = ('raise',)


def ite(t, a, b):
    if isinstance(a, SetBV) or isinstance(b, SetBV):
        u = (a if isinstance(a, SetBV) else b).u
        at = a.t if isinstance(a, SetBV) else SetBV.of(a, u).t
        bt = b.t if isinstance(b, SetBV) else SetBV.of(b, u).t
        return SetBV(z3.If(t, at, bt), u)
    if isinstance(a, Record) and isinstance(b, Record):
        return Record({k: ite(t, a[k], b[k]) for k in a})
    if a is RAISE or b is RAISE:
        raise Unsupported('raise under a symbolic condition')
    a = a if z3.is_expr(a) else _lift(a)
    b = b if z3.is_expr(b) else _lift(b)
    return z3.If(t, a, b)


def _lift(v):
    if isinstance(v, bool):
        return z3.BoolVal(v)
    if isinstance(v, int):
        return z3.IntVal(v)
    if isinstance(v, str):
        return z3.StringVal(v)
    raise Unsupported(f'cannot lift {type(v)}')


def fn_ast(fn):
    f = getattr(fn, '__func__', fn)
    src = textwrap.dedent(inspect.getsource(f))
    node = ast.parse(src).body[0]
    return node


def translate(fn, env, universe=None):
    """Interpret fn's current source under env (parameter names -> values)."""
    node = fn_ast(fn)
    t = Tr(env, universe)
    t.globals_ = getattr(getattr(fn, '__func__', fn), '__globals__', None)
    r = t.block(node.body)
    if r is None:
        raise Unsupported('function without return')
    return r[1]


def assigned_expr(fn, target, env, universe=None):
    """Translate the right-hand side of the (single) assignment to `target` inside fn's body."""
    node = fn_ast(fn)
    found = [st for st in ast.walk(node) if isinstance(st, ast.Assign) and len(st.targets) == 1
             and isinstance(st.targets[0], ast.Name) and st.targets[0].id == target]
    if len(found) != 1:
        raise Unsupported(f'{len(found)} assignments to {target}')
    t = Tr(env, universe)
    t.globals_ = getattr(getattr(fn, '__func__', fn), '__globals__', None)
    return t.ex(found[0].value)


def qualname(fn):
    f = getattr(fn, '__func__', fn)
    return f'{f.__module__.replace("kernpy.", "")}:{f.__qualname__}'


# ---------------------------------------------------------------- query runner
class Queries:
    def __init__(self, tier):
        self.tier = tier
        self.n = 0
        self.unsat = 0
        self.sat = 0
        self.unknown = 0
        self.solver_s = 0.0
        self.cex = []
        self.samples = []
        self.cross = {'checked': 0, 'disagree': 0, 'errors': 0, 'solvers': []}
        self.t0 = time.monotonic()

    def valid(self, name, assumptions, goal, *, timeout_s=120, model_vars=None, explain=None):
        """Decide `assumptions => goal` for all values: check unsat of assumptions ∧ ¬goal."""
        s = z3.Solver()
        s.set('timeout', int(timeout_s * 1000))
        for a in assumptions:
            s.add(a)
        s.add(z3.Not(goal))
        t = time.perf_counter()
        r = str(s.check())
        dt = time.perf_counter() - t
        self.n += 1
        self.solver_s += dt
        rec = {'query': name, 'result': r, 'time_s': round(dt, 3)}
        if r == 'unsat':
            self.unsat += 1
        elif r == 'sat':
            self.sat += 1
            m = s.model()
            vals = {}
            for v in (model_vars or []):
                try:
                    vals[str(v)] = str(m.eval(v, model_completion=True))
                except Exception:
                    pass
            rec['model'] = vals
            self.cex.append({'query': name, 'model': vals, 'explain': explain(m) if explain else None})
        else:
            self.unknown += 1
            rec['reason'] = s.reason_unknown()
        if len(self.samples) < 12:
            self.samples.append(rec)
        if self.tier == 'thorough' and r == 'unsat':
            self._cross(name, s, timeout_s)
        return r, (s.model() if r == 'sat' else None)

    def _cross(self, name, s, timeout_s):
        """Re-decide with the independent solver binaries; disagreement or (error => inconclusive."""
        smt = '(set-logic ALL)\n' + s.to_smt2()
        with tempfile.NamedTemporaryFile('w', suffix='.smt2', delete=False, dir=os.environ.get('VERIF_WORKDIR')) as f:
            f.write(smt)
            path = f.name
        try:
            for exe, argv in (('z3-4.8.12', ['/usr/bin/z3', f'-T:{int(timeout_s)}', path]),
                              ('cvc5-1.0.3', ['/usr/bin/cvc5', f'--tlimit={int(timeout_s * 1000)}', path])):
                if not os.path.exists(argv[0]):
                    continue
                try:
                    p = subprocess.run(argv, capture_output=True, text=True, timeout=timeout_s + 30)
                    out = (p.stdout + p.stderr).strip()
                except subprocess.TimeoutExpired:
                    out = 'timeout'
                if exe not in self.cross['solvers']:
                    self.cross['solvers'].append(exe)
                self.cross['checked'] += 1
                first = out.split('\n')[0].strip() if out else ''
                if '(error' in out:
                    self.cross['errors'] += 1
                elif first == 'sat':
                    self.cross['disagree'] += 1
                    self.unknown += 1
                elif first != 'unsat':
                    self.cross['errors'] += 1   # timeout/unknown on the second solver: recorded, not a disagreement
        finally:
            os.unlink(path)

    def unsupported(self, what):
        """The source left the translatable subset: the obligation is inconclusive (never a pass, never an alarm)."""
        self.unknown += 1
        self.samples.append({'query': 'translation', 'result': 'unsupported', 'reason': str(what)[:300]})

    def result(self, functions, tables, validated_points=0, notes=''):
        return {
            'queries': self.n, 'unsat': self.unsat, 'sat': self.sat, 'unknown': self.unknown,
            'solver_s': round(self.solver_s, 3), 'cex': [], 'raw_cex': self.cex, 'samples': self.samples,
            'functions': functions, 'tables': tables, 'validated_points': validated_points,
            'cross_solver': (f"{self.cross['checked']} re-decided by {self.cross['solvers']}: "
                             f"{self.cross['disagree']} disagreements, {self.cross['errors']} inconclusive") if self.cross['checked'] else 'not run in this tier',
            'decided': self.unknown == 0, 'notes': notes, 'wall_s': round(time.monotonic() - self.t0, 2),
        }
