"""One (obligation, shard) in its own process.  Usage:
   python -m sv.engine.worker <prop> <ob_id> <k> <n> <tier> <workdir> [twin]
Writes <workdir>/<ob_id>.<k>[.twin].json"""
import importlib
import json
import os
import sys
import time
import traceback


MISSING = []


def wrap_untraced(specs):
    from .xh import untraced_if_concrete
    for modname, attr in specs:
        try:
            mod = importlib.import_module(modname)
            parts = attr.split('.')
            owner = mod
            for p in parts[:-1]:
                owner = getattr(owner, p)
            raw = owner.__dict__[parts[-1]] if hasattr(owner, '__dict__') and parts[-1] in vars(owner) else getattr(owner, parts[-1])
        except (ImportError, AttributeError, KeyError):
            # selective untracing is a speed-up only: a function that was renamed or moved by a refactoring simply stays traced
            MISSING.append(f'{modname}:{attr}')
            continue
        if isinstance(raw, classmethod):
            f = raw.__func__
            if not getattr(f, '__wrapped_by_verif__', False):
                setattr(owner, parts[-1], classmethod(untraced_if_concrete(f)))
        elif isinstance(raw, staticmethod):
            f = raw.__func__
            if not getattr(f, '__wrapped_by_verif__', False):
                setattr(owner, parts[-1], staticmethod(untraced_if_concrete(f)))
        else:
            if not getattr(raw, '__wrapped_by_verif__', False):
                setattr(owner, parts[-1], untraced_if_concrete(raw))


def main():
    prop, ob_id, k, n, tier, workdir = sys.argv[1:7]
    twin = len(sys.argv) > 7 and sys.argv[7] == 'twin'
    k, n = int(k), int(n)
    out = os.path.join(workdir, f'{ob_id}.{k}{".twin" if twin else ""}.json')
    t0 = time.monotonic()
    res = {'ob': ob_id, 'shard': k, 'nshards': n, 'twin': twin}
    try:
        from . import ctx
        ctx.TIER = tier
        ctx.SEED = int(os.environ.get('VERIF_SEED', '0') or 0)
        with open(os.path.join(workdir, 'ctx.json')) as f:
            c = json.load(f)
        ctx.DATA = c['data']
        ctx.KF_ACTIVE = set(c['kf_active'])
        from . import xh
        mod = importlib.import_module(f'sv.props.{prop.lower()}')
        if hasattr(mod, 'load'):
            mod.load(tier)
        ob = next(o for o in mod.OBLIGATIONS if o.id == ob_id)
        if ob.engine == 'E1':
            if ob.opaque_numbers:
                xh.install_opaque_number_format()
            wrap_untraced(ob.untrace)
            budget = float(os.environ.get('VERIF_BUDGET_S', ob.budget_s[tier]))
            r = xh.explore(ob.fn, budget_s=(20.0 if twin else budget), per_path_s=ob.per_path_s,
                           shard=(k, n), shard_of=ob.shard_of, twin=twin, seed=ctx.SEED, native_body=ob.native_body)
            res.update(r)
            if MISSING:
                res['untrace_missing'] = list(MISSING)
        else:
            import inspect
            try:
                if len(inspect.signature(ob.run).parameters) >= 3:
                    res.update(ob.run(tier, k, n))
                else:
                    res.update(ob.run(tier))
            except AttributeError as e:
                if ob.engine == 'E2':
                    # the kernel the lemma translates was renamed / moved: the lemma is inconclusive on this tree
                    # (never a pass, never an alarm); the E1 obligations of the property still decide their bounds
                    res.update({'queries': 0, 'unsat': 0, 'sat': 0, 'unknown': 1, 'decided': False, 'cex': [], 'functions': [],
                                'notes': 'kernel not found in the current source: ' + str(e)[:200]})
                else:
                    raise
        res['ok'] = True
    except BaseException as e:
        res['ok'] = False
        res['error'] = ''.join(traceback.format_exception(type(e), e, e.__traceback__))[-3000:]
    res['proc_wall_s'] = round(time.monotonic() - t0, 2)
    with open(out + '.tmp', 'w') as f:
        json.dump(res, f)
    os.replace(out + '.tmp', out)


if __name__ == '__main__':
    main()
