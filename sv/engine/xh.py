"""E1: path-exhaustive symbolic execution of real kernpy code.

CrossHair 0.0.110's *engine* (StateSpace / RootNode / Patched / tracer /
symbolic proxies, all branch decisions discharged by z3) driven by our own loop:
one obligation function, explored until the persistent path tree is exhausted
or a budget ends.  See DESIGN.md section 2.1.
"""
from __future__ import annotations

import functools
import inspect
import os
import sys
import time
import traceback

import crosshair.core_and_libs  # noqa: F401  (must be first: resets the patch registry)
from crosshair import core as _core
from crosshair.condition_parser import condition_parser
from crosshair.core import Patched, deep_realize, gen_args, realize  # noqa: F401
from crosshair.libimpl import builtinslib as _bl
from crosshair.options import AnalysisKind
from crosshair.statespace import (CallAnalysis, RootNode, StateSpace,
                                  StateSpaceContext, VerificationStatus)
from crosshair.tracers import (COMPOSITE_TRACER, NoTracing, ResumedTracing,
                               is_tracing)
from crosshair.util import CrossHairValue, IgnoreAttempt, UnexploredPath
import z3

from . import shims  # noqa: F401  (registers the set.union shim)

# --------------------------------------------------------------------------
# solver accounting: every z3 check issued by the engine is counted and timed
SOLVER = {'n': 0, 't': 0.0}
_orig_check = z3.Solver.check


def _check(self, *a):
    t = time.perf_counter()
    try:
        return _orig_check(self, *a)
    finally:
        SOLVER['n'] += 1
        SOLVER['t'] += time.perf_counter() - t


z3.Solver.check = _check


# --------------------------------------------------------------------------
class Fail(Exception):
    """Raised by an obligation when the asserted property does not hold."""


def assume(cond) -> None:
    """Precondition: paths on which `cond` is false are discarded (not failures)."""
    if not cond:
        raise IgnoreAttempt('assume')


def check(cond, msg='') -> None:
    """Assert.  `msg` may be a callable: messages that mention symbolic values MUST be lazy,
    otherwise formatting them realises (forks on) every value."""
    if not cond:
        if callable(msg):
            msg = msg()
        raise Fail(msg if isinstance(msg, str) else repr(msg))


def is_symbolic(x, depth=3) -> bool:
    """Shallow scan for CrossHair proxies (must be called untraced)."""
    if isinstance(x, CrossHairValue):
        return True
    if depth <= 0:
        return False
    if isinstance(x, (list, tuple, set, frozenset)):
        return any(is_symbolic(y, depth - 1) for y in x)
    if isinstance(x, dict):
        return any(is_symbolic(k, depth - 1) or is_symbolic(v, depth - 1) for k, v in x.items())
    d = getattr(x, '__dict__', None)
    if isinstance(d, dict) and type(x).__module__.startswith(('kernpy', 'sv.')):
        return any(is_symbolic(v, depth - 1) for v in d.values())
    return False


def untraced_if_concrete(fn):
    """Run the *same real function* without the tracer when no argument is symbolic.

    Only toggles tracing; never changes arguments or results (DESIGN 2.1).
    """
    @functools.wraps(fn)
    def w(*a, **kw):
        if is_tracing():
            with NoTracing():
                conc = not (any(is_symbolic(x) for x in a) or any(is_symbolic(x) for x in kw.values()))
                if conc:
                    return fn(*a, **kw)
        return fn(*a, **kw)
    w.__wrapped_by_verif__ = True
    return w


def native(fn):
    """Decorator for harness helpers that must only ever see concrete values."""
    @functools.wraps(fn)
    def w(*a, **kw):
        if is_tracing():
            with NoTracing():
                return fn(*a, **kw)
        return fn(*a, **kw)
    return w


def concrete(x):
    """realize() under tracing, identity natively.  Lists the C boundaries."""
    if is_tracing():
        return deep_realize(x)
    return x


# --------------------------------------------------------------------------
SENTINEL = 'num'
_opaque_installed = False


def install_opaque_number_format():
    """Symbolic numbers render as an opaque sentinel in formatted strings (error
    messages only; obligations that enable this assert the sentinel never reaches
    a compared value).  DESIGN 2.1 'Opaque rendering of symbolic numbers'."""
    global _opaque_installed
    if _opaque_installed:
        return
    orig = _core._PATCH_REGISTRATIONS[format]

    def _fmt(obj, format_spec=""):
        with NoTracing():
            sym = isinstance(obj, _bl.SymbolicNumberAble)
        if sym:
            return SENTINEL
        return orig(obj, format_spec)
    _core._PATCH_REGISTRATIONS[format] = _fmt
    _opaque_installed = True


# --------------------------------------------------------------------------
_PROFILE = {'on': False, 'fns': set()}


def _profiler(frame, event, arg):
    if event == 'call':
        co = frame.f_code
        fnm = co.co_filename
        if '/kernpy/' in fnm and '/generated/' not in fnm:
            _PROFILE['fns'].add(fnm.split('/kernpy/', 1)[1][:-3].replace('/', '.') + ':' + co.co_qualname)


def run_native(fn, rep: dict, profile=False):
    """Ground truth: run the obligation natively on concrete arguments.
    Returns (verdict, message): verdict True / False / None (assumption false)."""
    if profile:
        sys.setprofile(_profiler)
    try:
        r = fn(**rep)
        return (True, '') if r is None or bool(r) else (False, 'obligation returned False')
    except IgnoreAttempt:
        return None, 'assumption false'
    except Fail as e:
        return False, str(e)
    except Exception as e:  # an unexpected exception escaping kernpy or the oracle
        return False, 'exception: ' + ''.join(traceback.format_exception_only(type(e), e)).strip()[:600]
    finally:
        if profile:
            sys.setprofile(None)


def _jsonable(x):
    if isinstance(x, (str, int, float, bool)) or x is None:
        return x
    if isinstance(x, (list, tuple)):
        return [_jsonable(y) for y in x]
    if isinstance(x, dict):
        return {str(k): _jsonable(v) for k, v in x.items()}
    return repr(x)


def explore(fn, *, budget_s=60.0, per_path_s=30.0, shard=(0, 1), shard_of=None,
            max_cex=3, twin=False, seed=0, profile_first=12, max_samples=6, max_paths=None, native_body=False):
    """Explore every feasible path of `fn` over symbolic arguments.

    Verdict per path: CONFIRMED (returned truthy/None), REFUTED (returned False or
    raised), ignored (assume false), UNKNOWN (solver timeout / unsupported).
    Each explored path's representative (a model of the arguments) is re-run
    natively; the native run is the ground truth.
    """
    import random
    random.seed(seed)
    try:
        from crosshair import statespace as _ss
        if hasattr(_ss, 'newrandom'):
            pass  # CrossHair seeds per-iteration RNGs from the path tree; order only
    except Exception:
        pass
    sig = inspect.signature(fn)
    root = RootNode()
    t0 = time.monotonic()
    s0 = dict(SOLVER)
    st = dict(paths=0, confirmed=0, ignored=0, unknown=0, refuted=0, cex=[], exhausted=False,
              native_ok=0, discrepancies=[], native_assume_mismatch=0, samples=[],
              unknown_reasons={}, twin_reached=False, suspects=[])
    reps = set()
    profiled = 0
    hist = []      # representatives already run natively in this process, in order (history for state that leaks between calls)
    HIST_MAX = 600
    with condition_parser([AnalysisKind.PEP316]), Patched(), COMPOSITE_TRACER, NoTracing():
        while True:
            if time.monotonic() - t0 > budget_s:
                break
            if max_paths is not None and st['paths'] >= max_paths:
                break
            st['paths'] += 1
            space = StateSpace(execution_deadline=time.process_time() + per_path_s,
                               model_check_timeout=per_path_s / 2, search_root=root)
            status = None
            rep = None
            msg = ''
            with StateSpaceContext(space):
                args = None
                try:
                    args = gen_args(sig)
                    with ResumedTracing():
                        if shard[1] > 1:
                            assume(shard_of(*args.args, **args.kwargs) % shard[1] == shard[0])
                        r = fn(*args.args, **args.kwargs)
                        ok = True if r is None else bool(r)
                        space.detach_path()
                        rep = {k: deep_realize(v) for k, v in args.arguments.items()}
                    if twin:
                        st['twin_reached'] = True
                    status = VerificationStatus.CONFIRMED if ok else VerificationStatus.REFUTED
                    if not ok:
                        msg = 'obligation returned False'
                except IgnoreAttempt:
                    status = None
                    st['ignored'] += 1
                except UnexploredPath as e:
                    status = VerificationStatus.UNKNOWN
                    st['unknown'] += 1
                    k = type(e).__name__
                    st['unknown_reasons'][k] = st['unknown_reasons'].get(k, 0) + 1
                except Exception as e:
                    msg = ('fail: ' + str(e)) if isinstance(e, Fail) else \
                        'exception(traced): ' + ''.join(traceback.format_exception_only(type(e), e)).strip()[:400]
                    try:
                        with ResumedTracing():
                            space.detach_path()
                            rep = {k: deep_realize(v) for k, v in args.arguments.items()}
                        status = VerificationStatus.REFUTED
                    except BaseException:
                        rep = None
                        status = VerificationStatus.UNKNOWN
                        st['unknown'] += 1
                        st['unknown_reasons']['unrealizable-failure'] = st['unknown_reasons'].get('unrealizable-failure', 0) + 1
                _, exhausted = space.bubble_status(CallAnalysis(status))
            if twin and st['twin_reached']:
                break
            if rep is not None:
                prof = profiled < profile_first
                if native_body and status == VerificationStatus.CONFIRMED and not prof:
                    nat, nmsg = True, ''      # the body already ran with the tracer off on these concrete values
                else:
                    nat, nmsg = run_native(fn, rep, profile=prof)
                if prof:
                    profiled += 1
                key = repr(sorted(rep.items()))
                jrep = _jsonable(rep)
                before = list(hist[-HIST_MAX:]) if (nat is False or status != VerificationStatus.CONFIRMED) and len(st['cex']) + len(st['suspects']) < 4 else None
                hist.append(jrep)
                if status == VerificationStatus.CONFIRMED:
                    if nat is True:
                        st['confirmed'] += 1
                        st['native_ok'] += 1
                        if key not in reps:
                            reps.add(key)
                            if len(st['samples']) < max_samples:
                                st['samples'].append(_jsonable(rep))
                    elif nat is False:
                        # native run is the ground truth: a real counterexample
                        st['refuted'] += 1
                        st['cex'].append({'args': _jsonable(rep), 'message': nmsg, 'traced': 'confirmed', 'history': before})
                    else:
                        st['confirmed'] += 1
                        st['native_assume_mismatch'] += 1
                else:
                    if nat is False:
                        st['refuted'] += 1
                        st['cex'].append({'args': _jsonable(rep), 'message': nmsg, 'traced': msg, 'history': before})
                    else:
                        # traced refutation that does not reproduce: engine discrepancy, inconclusive
                        st['unknown'] += 1
                        st['unknown_reasons']['traced-native-discrepancy'] = \
                            st['unknown_reasons'].get('traced-native-discrepancy', 0) + 1
                        if len(st['discrepancies']) < 5:
                            st['discrepancies'].append({'args': _jsonable(rep), 'traced': msg, 'native': nat})
                        # a failure that shows only the FIRST time in a process (e.g. a call that permanently changes module-level
                        # state) cannot reproduce in this process: hand it to the fresh-process replay, which is the arbiter
                        if len(st['suspects']) < 3:
                            st['suspects'].append({'args': _jsonable(rep), 'message': msg, 'traced': 'refuted; native re-run in the same process passed', 'history': before})
                if len(st['cex']) >= max_cex:
                    break
            if exhausted:
                st['exhausted'] = True
                break
    st['wall_s'] = round(time.monotonic() - t0, 2)
    st['solver_queries'] = SOLVER['n'] - s0['n']
    st['solver_s'] = round(SOLVER['t'] - s0['t'], 3)
    st['distinct_reps'] = len(reps)
    st['functions'] = sorted(_PROFILE['fns'])
    return st


def choose(idx, n: int) -> int:
    """Consume a selector: returns the concrete value of `idx` in range(n), forking the path
    tree by binary search (log2(n) z3-decided branches per path, no duplicate paths).
    Natively the identity.  The caller must have assumed 0 <= idx < n."""
    lo, hi = 0, n
    while hi - lo > 1:
        mid = (lo + hi) // 2
        if idx < mid:
            hi = mid
        else:
            lo = mid
    return lo
