"""Long scores (hundreds to thousands of lines) as abstract cells: the scaling end of the bound.
Real scores are this long; code that recurses once per line, or copies per line, only fails here."""
from __future__ import annotations

from .cells import Bar, Doc, FieldComment, GComment, Header, Note, Null, Op, Rest, Simple
from .docs import lyr, sig

LETTERS = 'cdefgab'


def pitch_letters(k: int) -> str:
    """Pitches between C3 and b5 without accidentals (the claimed core of C15)."""
    L = LETTERS[k % 7]
    reg = (k // 7) % 3          # 0: 'C' (octave 3), 1: 'c' (octave 4), 2: 'cc' (octave 5)
    return L.upper() if reg == 0 else L * reg


def long_doc(n_rows: int, text_spine: bool = True, split_at: int = 0, comments: bool = True) -> Doc:
    """One **kern spine (+ a **text spine), a barline every 4 data rows, a rest every 7th row, a dotted / decorated
    note now and then, a field-comment row and a global comment every 50 rows; with split_at > 0 the kern spine splits
    at that data row and joins 3 rows later."""
    ncol = 2 if text_spine else 1

    def pad(cells_):
        return cells_ + ([Null('*')] if text_spine and cells_[0].kind in ('sig', 'op', 'null') else [])

    rows = [[Header('**kern')] + ([Header('**text')] if text_spine else [])]
    rows.append([sig('*clefG2', 'CLEF')] + ([Null('*')] if text_spine else []))
    rows.append([sig('*M4/4', 'TIME_SIGNATURE')] + ([Null('*')] if text_spine else []))
    m = 1
    split_left = 0
    for i in range(n_rows):
        if i % 4 == 0:
            b = Bar(number=str(m))
            rows.append([b] * (ncol + (1 if split_left else 0)))
            m += 1
        if comments and i % 50 == 25:
            rows.append([GComment('!! remark %d' % i)])
            rows.append([FieldComment('!fc%d' % i)] * (ncol + (1 if split_left else 0)))
        if split_at and i == split_at:
            rows.append([Op('*^')] + ([Null('*')] if text_spine else []))
            split_left = 3
        if i % 7 == 6:
            k = [Rest('4')]
        elif i % 11 == 5:
            k = [Note('8', dots=1, pitch=pitch_letters(i), decs=((3, 'L'),))]
        else:
            k = [Note('4', pitch=pitch_letters(i))]
        if split_left:
            k = k + [Note('2', pitch=pitch_letters(i + 9))]
        rows.append(k + ([lyr('w%d' % i) if i % 3 else Null('.')] if text_spine else []))
        if split_left:
            split_left -= 1
            if split_left == 0:
                rows.append([Op('*v'), Op('*v')] + ([Null('*')] if text_spine else []))
    rows.append([Bar(double=True)] * ncol)
    rows.append([Op('*-')] * ncol)
    return Doc(rows)


def n_measures(D: Doc) -> int:
    return sum(1 for r in D.rows if r[0].kind == 'bar')
