"""Score shapes and the text-level measure model (independent of kernpy's importer/exporter).

A *shape* is a tuple of small integers; `build` turns it into Humdrum text plus the
generator's own description of every line (kind, cells).  The measure model is read
off that description: which lines open a measure, which data lines belong to it and
what a measure-range excerpt must contain.
"""
from __future__ import annotations

from dataclasses import dataclass, field

NOTES = ['4c', '4d', '4e', '4f', '4g', '4a', '4b', '4cc', '4dd', '4ee', '4ff', '4gg', '4aa', '4bb', '8c', '8d', '8e', '8f', '8g', '8a',
         '2c', '2d', '2e', '2f', '2g', '2a', '2b', '2cc', '2dd', '2ee']
WORDS = ['la', 'li', 'lu', 'le', 'lo', 'ma', 'mi', 'mu', 'me', 'mo', 'na', 'ni', 'nu', 'ne', 'no', 'pa', 'pi', 'pu', 'pe', 'po',
         'ra', 'ri', 'ru', 're', 'ro', 'sa', 'si', 'su', 'se', 'so']


@dataclass
class Line:
    kind: str            # header | sig | bar | data | term | comment | op
    cells: list          # source cells
    n_bar: int = 0       # for bar lines: running number (0 = final '==')


@dataclass
class Score:
    text: str
    lines: list          # list[Line]
    headers: list
    sigs: list = field(default_factory=list)   # list of signature rows (cells) before the first measure


FIRST_KINDS = (None, '4c 4e 4g', '4r', '8.cc#L')     # first data cell of the score: plain pool note, chord, rest, decorated note


def build(M: int, lens: tuple, opening: bool, pickup: int, final: bool, kern_spines: int = 1, text_spine: bool = False,
          first_kind: int = 0, blanks: int = 0, sig_rows=(('*clefG2',), ('*M4/4',)), number_bars: bool = True) -> Score:
    """M barline-delimited measures with lens[m] data rows each.

    opening : the first measure has its own barline (=1) in front of it
    pickup  : number of data rows before the first barline (0 = none)
    final   : a closing '==' barline after the last measure
    Every data cell of the score is pairwise distinct so lines are identifiable.
    """
    ncol = kern_spines + (1 if text_spine else 0)
    headers = ['**kern'] * kern_spines + (['**text'] if text_spine else [])
    lines = [Line('header', list(headers))]
    sigs = []
    for row in sig_rows:
        cells = [row[min(c, len(row) - 1)] for c in range(kern_spines)] + (['*staff2'] if text_spine else [])  # not a null cell: a null before the first barline opens a measure in kernpy (outside the claim)
        lines.append(Line('sig', cells))
        sigs.append(cells)
    k = [0]

    def data_row():
        i = k[0]
        k[0] += 1
        cells = []
        for c in range(kern_spines):
            if i == 0 and first_kind:
                cells.append(FIRST_KINDS[first_kind] if c == 0 else (('2E 2G', '2F 2A', '2D 2B')[c % 3] if first_kind == 1 else '2r' + ';' * c))   # every spine starts with that cell kind
                continue
            cells.append(NOTES[(i * kern_spines + c) % len(NOTES)] if (i * kern_spines + c) < len(NOTES)
                         else '%d%s' % (16, 'cdefgab'[(i + c) % 7] * 3))
            if blanks & 64:      # every note carries a tie mark (start / continuation / end in turn): ties cross the barlines in every phase
                cells[-1] += ('[', '_', ']')[(i + c) % 3]
        if text_spine:
            cells.append(WORDS[i % len(WORDS)])
        return Line('data', cells)

    n = 1
    for _ in range(pickup):
        lines.append(data_row())
    for m in range(M):
        if m > 0 or opening or pickup:
            txt = ('=%d' % n) if number_bars else '='
            # blanks bit 16: the second barline line of the score is an invisible barline (=2-); bit 32: every barline line after the
            # first one is.  An invisible barline is a barline: it opens a measure like any other (it is only not drawn).
            if (blanks & 16 and n == 2) or (blanks & 32 and n >= 2):
                txt += '-'
            lines.append(Line('bar', [txt] * ncol, n_bar=n))
            n += 1
        for _ in range(lens[m]):
            lines.append(data_row())
    if final:
        lines.append(Line('bar', ['=='] * ncol, n_bar=0))
    lines.append(Line('term', ['*-'] * ncol))
    # blanks (bit set): 1 = an empty line after the header block, 2 = an empty line in front of every barline,
    # 64 = tie marks on every note (see data_row);
    # 4 = a global comment line in front of every barline and after the first data line (global comments are stored in the tree
    # but never exported: stages and exported rows drift apart), 8 = a reference record '!!!OTL: x' after the signature rows
    out = []
    seen_data = False
    for i, ln in enumerate(lines):
        if (blanks & 2) and ln.kind == 'bar':
            out.append('')
        if (blanks & 4) and ln.kind == 'bar':
            out.append('!! remark %d' % i)
        out.append('\t'.join(ln.cells))
        if (blanks & 4) and ln.kind == 'data' and not seen_data:
            out.append('!! after the first data line')
        seen_data = seen_data or ln.kind == 'data'
        if (blanks & 1) and i == len(sigs):
            out.append('')
        if (blanks & 8) and i == len(sigs):
            out.append('!!!OTL: x')
    text = '\n'.join(out) + '\n'
    return Score(text, lines, headers, sigs)


def measure_starts(score: Score) -> list:
    """Indices (into score.lines) of the lines that open a measure: every barline line, and the
    first data line if it precedes any barline."""
    starts = []
    for i, ln in enumerate(score.lines):
        if ln.kind == 'bar':
            starts.append(i)
        elif ln.kind == 'data' and not starts:
            starts.append(i)
    return starts


def exported_cell(kind: str, cell: str) -> str:
    """Default export of a generated cell: barlines lose their number, everything else verbatim."""
    if kind == 'bar':
        body = cell.lstrip('=')
        eq = cell[:len(cell) - len(body)]
        body = body.lstrip('0123456789')
        if body.startswith('-'):
            return '.'          # an invisible barline is written as a null token by kernpy (recorded finding of C03); its line is then all null
        return eq + body
    return cell


def project(line: Line, keep_cols) -> list:
    return [exported_cell(line.kind, c) for j, c in enumerate(line.cells) if j in keep_cols]


def expected_range(score: Score, a: int, b: int, keep_cols=None) -> list:
    """Lines (as cell lists) of the excerpt a..b (1 <= a <= b <= M): the reconstructed preamble
    (header, signatures in force), the lines from the one that opens measure a to the barline that
    closes measure b (the end of the score for the last measure), and the terminators."""
    starts = measure_starts(score)
    M = len(starts)
    ncol = len(score.headers)
    keep = list(range(ncol)) if keep_cols is None else list(keep_cols)
    lo = starts[a - 1]
    if b < M:
        hi = starts[b]
        body = score.lines[lo:hi + 1]
        tail = [['*-'] * len(keep)]
    else:
        body = score.lines[lo:]          # includes the score's own terminator line
        tail = []
    pre = [project(score.lines[0], keep)] + [[c for j, c in enumerate(r) if j in keep] for r in score.sigs]
    return [r for r in pre + [project(ln, keep) for ln in body] + tail if not all(c == '.' for c in r)]


def full_expected(score: Score, keep_cols=None) -> list:
    ncol = len(score.headers)
    keep = list(range(ncol)) if keep_cols is None else list(keep_cols)
    return [r for r in [project(ln, keep) for ln in score.lines] if not all(c == '.' for c in r)]


def data_lines(rows) -> list:
    """The data lines among exported rows (lists of cells): not interpretations, barlines or comments."""
    return [r for r in rows if r and not r[0].startswith(('*', '=', '!'))]


def parse(text: str) -> list:
    return [ln.split('\t') for ln in text.split('\n') if ln != '']
