"""Structural snapshots of a Document and of kernpy's shared module-level state.

Node ids / id() are replaced by DFS indices so that two imports of the same text
compare equal and any write to a node, token, sub-token or shared default shows.
"""
from __future__ import annotations


def _tok(t):
    if t is None:
        return None
    d = {'class': type(t).__name__, 'encoding': t.encoding, 'category': t.category.name if t.category is not None else None,
         'hidden': getattr(t, 'hidden', None)}
    for attr in ('spine_id', 'cancelled_at_stage', 'line', 'error', 'page_number'):
        if hasattr(t, attr):
            d[attr] = getattr(t, attr)
    if hasattr(t, 'bounding_box'):
        bb = t.bounding_box
        d['bbox'] = (bb.from_x, bb.from_y, bb.to_x, bb.to_y)
    for attr in ('pitch_duration_subtokens', 'decoration_subtokens', 'subtokens'):
        if hasattr(t, attr):
            d[attr] = tuple((s.encoding, s.category.name) for s in getattr(t, attr))
    if hasattr(t, 'notes_tokens'):
        d['notes'] = tuple(_tok(n) for n in t.notes_tokens)
    return tuple(sorted(d.items(), key=lambda kv: kv[0]))


def snap(doc) -> tuple:
    tree = doc.tree
    order = []
    index = {}
    stack = [tree.root]
    while stack:
        n = stack.pop()
        if id(n) in index:
            continue
        index[id(n)] = len(order)
        order.append(n)
        stack.extend(reversed(n.children))

    def ix(n):
        return None if n is None else index.get(id(n), 'FOREIGN')

    nodes = []
    for n in order:
        sig = tuple(sorted((k, ix(v)) for k, v in n.last_signature_nodes.nodes.items())) if n.last_signature_nodes is not None else None
        nodes.append((index[id(n)], n.stage, _tok(n.token), ix(n.parent), tuple(ix(c) for c in n.children),
                      ix(n.header_node), ix(n.last_spine_operator_node), sig))
    stages = tuple(tuple(ix(n) for n in st) for st in tree.stages)
    pbb = tuple(sorted((str(k), (v.from_measure, v.to_measure,
                                 (v.bounding_box.from_x, v.bounding_box.from_y, v.bounding_box.to_x, v.bounding_box.to_y)))
                       for k, v in doc.page_bounding_boxes.items()))
    return (tuple(nodes), stages, tuple(doc.measure_start_tree_stages), doc.header_stage, pbb)


def snap_globals() -> tuple:
    from kernpy.core import tokens as tk, transposer as tr, pitch_models as pm, gkern as gk
    from kernpy.core.exporter import ExportOptions

    def h(tree):
        return tuple((k.name, h(v)) for k, v in tree.items())
    d = ExportOptions.default()
    return (
        tuple(sorted(tk.HEADERS)), tuple(sorted(tk.CORE_HEADERS)), tuple(sorted(tk.SPINE_OPERATIONS)),
        tuple(sorted(c.name for c in tk.BEKERN_CATEGORIES)), tuple(sorted(c.name for c in tk.NON_CORE_CATEGORIES)),
        h(tk.TokenCategoryHierarchyMapper.hierarchy),
        tuple(sorted(tr.Intervals.items())), tuple(sorted(tr.IntervalsByName.items())), tuple(tr.AVAILABLE_INTERVALS),
        tuple(sorted(pm.Chromas.items())), tuple(sorted(pm.ChromasByValue.items())), tuple(gk.LETTERS),
        (tuple(sorted(d.spine_types)), tuple(c.name for c in d.token_categories), d.from_measure, d.to_measure, d.kern_type.name,
         d.instruments, d.show_measure_numbers, d.spine_ids),
        (tk.TOKEN_SEPARATOR, tk.DECORATION_SEPARATOR, tk.TERMINATOR, tk.EMPTY_TOKEN),
    )


def diff(a, b, path='') -> str:
    """First difference between two snapshots, for messages."""
    if type(a) != type(b):
        return f'{path}: {a!r} != {b!r}'
    if isinstance(a, tuple):
        if len(a) != len(b):
            return f'{path}: length {len(a)} != {len(b)}'
        for i, (x, y) in enumerate(zip(a, b)):
            if x != y:
                return diff(x, y, f'{path}[{i}]')
        return ''
    return '' if a == b else f'{path}: {a!r} != {b!r}'
