"""Letter / semitone pitch model, independent of kernpy's base-40 tables."""
LET = 'CDEFGAB'
BASE = (0, 2, 4, 5, 7, 9, 11)
SMALL = tuple(range(0, 16))


def interval_sizes(name: str):
    """Interval name -> (diatonic steps, semitones), derived from quality + number."""
    if name == 'octave':
        return 7, 12
    q = name.rstrip('0123456789')
    n = int(name[len(q):])
    d = n - 1
    maj = BASE[d]
    perfect = n in (1, 4, 5)
    if perfect:
        s = {'P': maj, 'A': maj + 1, 'AA': maj + 2, 'd': maj - 1, 'dd': maj - 2}[q]
    else:
        s = {'M': maj, 'm': maj - 1, 'A': maj + 1, 'AA': maj + 2, 'd': maj - 2, 'dd': maj - 3}[q]
    return d, s


def expected_interval_names():
    out = []
    for n in range(1, 8):
        quals = ('dd', 'd', 'P', 'A', 'AA') if n in (1, 4, 5) else ('dd', 'd', 'm', 'M', 'A', 'AA')
        out += [f'{q}{n}' for q in quals]
    return sorted(out + ['octave'])


def transpose(letter: int, alt: int, octave: int, dsize: int, ssize: int, up: bool):
    """-> (letter, alteration, octave) of the transposed pitch (alteration may exceed +-2)."""
    sign = 1 if up else -1
    D = 7 * octave + letter + sign * dsize
    S = 12 * octave + BASE[letter] + alt + sign * ssize
    L2 = D % 7
    O2 = D // 7
    A2 = S - (12 * O2 + BASE[L2])
    return L2, A2, O2


def humdrum(letter: int, alt: int, octave: int) -> str:
    L = 'cdefgab'[(letter + 0) % 7] if False else 'cdefgab'['CDEFGAB'.index(LET[letter])]
    body = L * SMALL[octave - 3] if octave >= 4 else L.upper() * SMALL[4 - octave]
    return body + ('#' * SMALL[alt] if alt >= 0 else '-' * SMALL[-alt])


def name_parts(name: str):
    """kernpy agnostic name ('C', 'E--', 'F+') -> (letter index, alteration)."""
    return LET.index(name[0]), name.count('+') - name.count('-')


def agnostic_name(letter: int, alt: int) -> str:
    return LET[letter] + ('+' * alt if alt >= 0 else '-' * -alt)


def steps(letter: int, octave: int) -> int:
    return 7 * octave + letter
