"""Slot grids: note / rest / chord / barline cells assembled from the selector alphabets.

Each grid is a list of *dimension sizes*; `decode(grid, indices)` returns the abstract cell
(sv/ref/cells.py).  The alphabets are those classified by the current parser in the property
module's setup() (core members are always present, see sv/ref/alphabets.py).
"""
from __future__ import annotations

from . import alphabets as al
from .cells import Bar, Chord, Note, Rest

PITCHES = ('c', 'BB', 'ggg', 'a', 'E', 'dd', 'F', 'bbbb', 'CCC')
MARKS = ('', 'q', 'qq', 'p', 'P')
BASES = (Note('4', pitch='c'), Note('8', dots=1, pitch='BB', acc='-'), Note('16', pitch='gg', acc='#'))
POS_NOTE = (0, 1, 2, 3)


class Grids:
    def __init__(self, A, tier):
        self.A = A
        q = tier == 'quick'
        self.dur = al.with_pinned(list(al.DUR_CORE) + [d for d in A['dur'] if d not in al.DUR_CORE], al.DUR_PINNED)
        self.acc = al.with_pinned([''] + list(al.ACC_CORE) + [a for a in A['acc'] if a not in al.ACC_CORE], al.ACC_PINNED)
        # core members first and unconditionally: a parser change that drops or re-classifies one of them is a violation,
        # not a silently smaller domain; the extension is what the current parser additionally accepts
        core_dec = list(al.DEC_CORE) + list(al.DEC_ONLY_CORE)
        self.dec = al.with_pinned(core_dec + [d for d in A['dec'] if d not in core_dec], al.DEC_PINNED)
        self.canon = list(al.CANON_CORE) + [d for d in A['canon'] if d not in al.CANON_CORE]
        self.restdec = al.with_pinned(list(al.REST_DEC_CORE) + [d for d in A['restdec'] if d not in al.REST_DEC_CORE], al.REST_DEC_PINNED)
        self.disp = al.with_pinned(list(A['disp']), al.DISP_PINNED)
        self.bartype = [''] + list(al.BARTYPE_CORE)
        self.pitches = PITCHES[:3] if q else PITCHES
        self.quick = q

    # ---- G1: plain notes  dur x dots x pitch x acc
    def g_plain(self):
        return [len(self.dur), 3, len(self.pitches), len(self.acc)]

    def plain(self, i):
        d, dots, p, a = i
        return Note(self.dur[d], dots=dots, pitch=self.pitches[p], acc=self.acc[a])

    # ---- G2: duration marks  dur(4,8) x dots(0,1) x mark x pitch
    def g_marks(self):
        return [2, 2, len(MARKS), len(self.pitches)]

    def marks(self, i):
        d, dots, m, p = i
        return Note(('4', '8')[d], dots=dots, mark=MARKS[m], pitch=self.pitches[p])

    # ---- G3: one signifier  dec x position x base
    def g_dec(self):
        return [len(self.dec), 4, len(BASES)]

    def one_dec(self, i):
        s, pos, b = i
        base = BASES[b]
        return Note(base.dur, base.dots, base.mark, base.pitch, base.acc, '', ((pos, self.dec[s]),))

    # ---- G4: display suffixes  acc(# - n) x disp x base pitch
    def g_disp(self):
        return [3, len(self.disp), 2]

    def disp_note(self, i):
        a, d, p = i
        return Note('4', pitch=('c', 'BB')[p], acc=('#', '-', 'n')[a], disp=self.disp[d])

    # ---- G5: rests  dur x dots x restdec(+none) x position(0,3)
    def g_rest(self):
        return [len(self.dur) if not self.quick else 5, 3, len(self.restdec) + 1, 2]

    def rest(self, i):
        d, dots, s, pos = i
        decs = () if s == 0 else (((0, 3)[pos], self.restdec[s - 1]),)
        return Rest(self.dur[d], dots=dots, decs=decs)

    # ---- G6: chords of 2-3 notes from note forms
    FORMS = (Note('4', pitch='c'), Note('4', pitch='e', acc='-'), Note('8', dots=1, pitch='gg', acc='#'),
             Note('4', pitch='BB', decs=((3, 'L'),)), Note('2', pitch='a', decs=((3, ';'), (0, '('))), Rest('4'),
             Note('16', pitch='dd', acc='n', decs=((3, 'J'),)),
             # the same note as the first form, spelled with a signifier: a chord may hold one note twice (unison of two voices)
             Note('4', pitch='c', decs=((3, "'"),)))

    def g_chord(self):
        n = len(self.FORMS)
        return [n, n, n + 1]

    def chord(self, i):
        a, b, c = i
        notes = [self.FORMS[a], self.FORMS[b]] + ([self.FORMS[c - 1]] if c > 0 else [])
        return Chord(tuple(notes))

    # ---- G7: barlines  double x number x ab x hidden x type x fermata
    NUMBERS = ('', '1', '12')
    ABS = ('', 'a', 'b', 'ab')

    def g_bar(self):
        return [2, 3, 4, 2, len(self.bartype), 2]

    def bar(self, i):
        dbl, num, ab, hid, ty, fer = i
        return Bar(bool(dbl), self.NUMBERS[num], self.ABS[ab], bool(hid), self.bartype[ty], bool(fer))

    # ---- G8: canonicity: ordered pair of canonical signifiers x position pair x repetition
    def g_canon(self, sub=None):
        n = len(self.canon) if sub is None else sub
        return [n, n, 4, 4, 3, len(BASES) if not self.quick else 1]

    def canon_note(self, i):
        """Returns (written note, canonical arrangement)."""
        s, t, p1, p2, rep, b = i
        base = BASES[b]
        a, c = self.canon[s], self.canon[t]
        decs = [(p1, a), (p2, c)]
        if rep == 1:
            decs.append((p2, a))          # first signifier repeated at the second position
        elif rep == 2:
            decs.append((p1, c))
            decs.append((3, a))
        written = Note(base.dur, base.dots, base.mark, base.pitch, base.acc, '', tuple(decs))
        canon = Note(base.dur, base.dots, base.mark, base.pitch, base.acc, '', tuple((3, x) for x in sorted({a, c})))
        return written, canon


def size(dims):
    n = 1
    for d in dims:
        n *= d
    return n


def unrank(dims, k):
    out = []
    for d in reversed(dims):
        out.append(k % d)
        k //= d
    return tuple(reversed(out))
