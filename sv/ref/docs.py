"""Document pool: row scripts written as abstract cells (sv/ref/cells.py).  Together they mention every
category a token can carry; each mentions few enough categories that all 2^k selections are reachable."""
from __future__ import annotations

from .cells import (Bar, Chord, Doc, FieldComment, GComment, Header, Note, Null, Op, Rest, Simple)

H = Header
T = '*-'


def sig(text, cat):
    return Simple(text, cat, 'sig')


def tandem(text, cat):
    return Simple(text, cat, 'tandem')


def lyr(t):
    return Simple(t, 'LYRICS', 'text')


def dyn(t):
    return Simple(t, 'DYNAMICS', 'text')


def harm(t):
    return Simple(t, 'HARMONY', 'text')


def fing(t):
    return Simple(t, 'FINGERING', 'text')


def other(t):
    return Simple(t, 'OTHER', 'text')


def pool():
    P = []
    # 0: kern + text, signatures, accidentals, decorations, rest, chord, field comments
    P.append(Doc([
        [H('**kern'), H('**text')],
        [sig('*clefG2', 'CLEF'), Null('*')],
        [sig('*k[f#]', 'KEY_SIGNATURE'), Null('*')],
        [sig('*M4/4', 'TIME_SIGNATURE'), Null('*')],
        [Bar(number='1'), Bar(number='1')],
        [Note('4', pitch='c', acc='#', decs=((3, 'L'),)), lyr('la')],
        [Rest('8', dots=1, decs=((3, ';'),)), Null('.')],
        [Chord((Note('4', pitch='e'), Note('4', pitch='g', acc='-'))), lyr('li')],
        [FieldComment('!x'), FieldComment('!y')],
        [Note('2', pitch='dd', decs=((3, 'J'), (3, '^'))), lyr('lu')],
        [Bar(double=True), Bar(double=True)],
        [Op(T), Op(T)],
    ]))
    # 1: kern + dynam + harm, meter symbol, contextual / engraved tandems
    P.append(Doc([
        [H('**kern'), H('**dynam'), H('**harm')],
        [sig('*clefF4', 'CLEF'), Null('*'), Null('*')],
        [sig('*met(c)', 'METER_SYMBOL'), Null('*'), Null('*')],
        [tandem('*MM120', 'OTHER_CONTEXTUAL'), Null('*'), Null('*')],
        [Bar(number='1'), Bar(number='1'), Bar(number='1')],
        [Note('4', pitch='C', decs=((3, "'"),)), dyn('f'), harm('C7')],
        [tandem('*above', 'ENGRAVED_SYMBOLS'), Null('*'), Null('*')],
        [Note('4', dots=1, pitch='D', acc='-'), Null('.'), harm('G')],
        [Note('8', pitch='E'), dyn('pp'), Null('.')],
        [Bar(number='2', type='||'), Bar(number='2', type='||'), Bar(number='2', type='||')],
        [Op(T), Op(T), Op(T)],
    ]))
    # 2: kern with split and join + fing, global comments
    P.append(Doc([
        [GComment('!!!COM: Anon')],
        [H('**kern'), H('**fing')],
        [sig('*clefG2', 'CLEF'), Null('*')],
        [Bar(number='1'), Bar(number='1')],
        [Note('4', pitch='c'), fing('1')],
        [Op('*^'), Null('*')],
        [Note('4', pitch='e', decs=((3, '/'),)), Note('4', pitch='c', decs=((3, '\\'),)), fing('3')],
        [GComment('!! inside')],
        [Note('4', pitch='f'), Rest('4'), fing('4')],
        [Op('*v'), Op('*v'), Null('*')],
        [Note('2', pitch='g', decs=((3, ';'),)), Null('.')],
        [Bar(double=True), Bar(double=True)],
        [Op(T), Op(T)],
        [GComment('!!!end: x')],
    ]))
    # 3: structural staff, bounding boxes, OTHER tandems, unknown spine type
    P.append(Doc([
        [H('**kern'), H('**foo')],
        [tandem('*staff1', 'STRUCTURAL'), tandem('*staff2', 'STRUCTURAL')],
        [tandem('*part1', 'OTHER'), Null('*')],
        [tandem('*xywh-1:10,20,30,40', 'BOUNDING_BOXES'), Null('*')],
        [sig('*clefC3', 'CLEF'), Null('*')],
        [Bar(number='1'), Bar(number='1')],
        [Note('16', pitch='b', acc='n'), other('zig')],
        [Note('16', mark='q', pitch='a'), other('zag')],
        [Bar(number='2'), Bar(number='2')],
        [Rest('1'), Null('.')],
        [Op(T), Op(T)],
    ]))
    # 4: two kern spines, clef change mid-score, grace / appoggiatura, double accidentals, chords with rests
    P.append(Doc([
        [H('**kern'), H('**kern')],
        [sig('*clefF4', 'CLEF'), sig('*clefG2', 'CLEF')],
        [sig('*k[b-e-]', 'KEY_SIGNATURE'), sig('*k[b-e-]', 'KEY_SIGNATURE')],
        [sig('*M3/4', 'TIME_SIGNATURE'), sig('*M3/4', 'TIME_SIGNATURE')],
        [Bar(number='1'), Bar(number='1')],
        [Note('4', pitch='GG', acc='--'), Note('8', mark='qq', pitch='cc', acc='##')],
        [Chord((Note('4', pitch='C'), Note('4', pitch='E', acc='-'), Note('4', pitch='G'))), Note('4', pitch='ee', decs=((3, '('),))],
        [sig('*clefG2', 'CLEF'), Null('*')],
        [Note('4', pitch='c', decs=((3, ')'),)), Note('4', dots=2, pitch='dd', decs=((3, ')'),))],
        [Bar(number='2'), Bar(number='2')],
        [Rest('2', dots=1), Note('2', dots=1, mark='', pitch='b', acc='-', decs=((0, '['),))],
        [Bar(double=True), Bar(double=True)],
        [Op(T), Op(T)],
    ]))
    # 5: text-only content spines around one kern spine (mxhm, dyn)
    P.append(Doc([
        [H('**mxhm'), H('**kern'), H('**dyn')],
        [Null('*'), sig('*clefG2', 'CLEF'), Null('*')],
        [Bar(number='1'), Bar(number='1'), Bar(number='1')],
        [harm('C major'), Note('1', pitch='c'), dyn('mf')],
        [Bar(number='2'), Bar(number='2'), Bar(number='2')],
        [Null('.'), Note('1', pitch='d'), dyn('<')],
        [Bar(double=True), Bar(double=True), Bar(double=True)],
        [Op(T), Op(T), Op(T)],
    ]))
    return P


def small():
    """Very small documents for obligations that multiply by many other selectors."""
    return [Doc([
        [H('**kern'), H('**text')],
        [sig('*clefG2', 'CLEF'), Null('*')],
        [Bar(number='1'), Bar(number='1')],
        [Note('4', pitch='c', acc='#', decs=((3, 'L'),)), lyr('la')],
        [Chord((Note('8', pitch='e'), Note('8', pitch='g'))), Null('.')],
        [Bar(double=True), Bar(double=True)],
        [Op(T), Op(T)],
    ])]


def mini_docs():
    """Small documents, each asking about <= 9 distinct categories (the exporter forks once per category
    it asks about), together covering every category an error-free document's tokens can carry."""
    T = '*-'
    M = []
    M.append(Doc([[H('**kern')], [Bar(number='1')], [Note('4', pitch='c', acc='#', decs=((3, 'L'),))],
                  [Rest('8', dots=1, decs=((3, ';'),))], [Note('2', dots=1, mark='', pitch='dd', decs=((3, 'J'), (0, '('), (3, '^')))], [Op(T)]]))
    M.append(Doc([[H('**kern'), H('**text')], [Bar(number='1'), Bar(number='1')],
                  [Chord((Note('4', pitch='e'), Note('4', pitch='g', acc='-'))), lyr('li')],
                  [Note('8', pitch='a'), Null('.')], [Null('.'), lyr('lu')], [Op(T), Op(T)]]))
    M.append(Doc([[H('**kern'), H('**kern')], [sig('*clefG2', 'CLEF'), sig('*clefF4', 'CLEF')], [sig('*k[f#]', 'KEY_SIGNATURE'), Null('*')],
                  [sig('*M4/4', 'TIME_SIGNATURE'), sig('*met(c)', 'METER_SYMBOL')], [Bar(number='1'), Bar(number='1')],
                  [Null('.'), Null('.')], [Op(T), Op(T)]]))
    M.append(Doc([[H('**kern'), H('**foo')], [tandem('*staff1', 'STRUCTURAL'), tandem('*staff2', 'STRUCTURAL')],
                  [tandem('*part1', 'OTHER'), Null('*')],
                  [Bar(double=True), Bar(double=True)], [Null('.'), other('zig')], [Op(T), Op(T)]]))
    M.append(Doc([[H('**kern'), H('**kern')], [tandem('*MM120', 'OTHER_CONTEXTUAL'), tandem('*xywh-1:10,20,30,40', 'BOUNDING_BOXES')],
                  [tandem('*above', 'ENGRAVED_SYMBOLS'), Null('*')], [Bar(number='1', type=':|!|:'), Bar(number='1', type=':|!|:')],
                  [Rest('1'), Note('1', pitch='C')], [Op(T), Op(T)]]))
    M.append(Doc([[H('**dynam'), H('**harm'), H('**fing'), H('**mxhm')], [Bar(number='1'), Bar(number='1'), Bar(number='1'), Bar(number='1')],
                  [dyn('f'), harm('C7'), fing('1'), harm('G major')], [Null('.'), harm('G'), Null('.'), Null('.')],
                  [Op(T), Op(T), Op(T), Op(T)]]))
    M.append(Doc([[GComment('!!!COM: x')], [H('**kern')], [FieldComment('!fc')], [Note('4', pitch='c')], [Op('*^')],
                  [Note('4', pitch='e'), FieldComment('!in')], [GComment('!! inside')], [Op('*v'), Op('*v')], [Rest('4')], [Op(T)]]))
    # the same text under different categories in one document ('f' is a pitch, a dynamic, a chord label and a syllable), both column orders
    M.append(Doc([[H('**kern'), H('**dynam'), H('**harm'), H('**text')], [Note('', pitch='f'), dyn('f'), harm('f'), lyr('f')],
                  [Note('', pitch='C'), Null('.'), harm('C'), lyr('C')], [Op(T), Op(T), Op(T), Op(T)]]))
    M.append(Doc([[H('**text'), H('**harm'), H('**dynam'), H('**kern')], [lyr('f'), harm('f'), dyn('f'), Note('', pitch='f')],
                  [lyr('C'), harm('C'), Null('.'), Note('', pitch='C')], [Op(T), Op(T), Op(T), Op(T)]]))
    return M


def with_clef(D, clef='*clefG2'):
    """The document with a clef row after the header line if it has none (agnostic encodings need a clef in force)."""
    rows = list(D.rows)
    if any(c.category == 'CLEF' for r in rows for c in r if hasattr(c, 'category')):
        return D
    h = 1 if rows[0][0].kind == 'gcomment' else 0
    rows.insert(h + 1, [sig(clef, 'CLEF') if c.text in ('**kern',) else Null('*') for c in rows[h]])
    return Doc(rows)
