"""The documented category tree, parsed from /repo/README.md at run time (fallback: the copy below,
taken from the README of the pinned commit).  Independent of kernpy's hierarchy literal."""
import os
import re

PINNED = """
├── STRUCTURAL
│   ├── HEADER
│   └── SPINE_OPERATION
├── CORE
│   ├── NOTE_REST
│   │   ├── DURATION
│   │   ├── NOTE
│   │   │   ├── PITCH
│   │   │   ├── DECORATION
│   │   │   └── ALTERATION
│   │   └── REST
│   ├── CHORD
│   ├── EMPTY
│   └── ERROR
├── SIGNATURES
│   ├── CLEF
│   ├── TIME_SIGNATURE
│   ├── METER_SYMBOL
│   ├── KEY_SIGNATURE
│   └── KEY_TOKEN
├── ENGRAVED_SYMBOLS
├── OTHER_CONTEXTUAL
├── BARLINES
├── COMMENTS
│   ├── FIELD_COMMENTS
│   └── LINE_COMMENTS
├── DYNAMICS
├── HARMONY
├── FINGERING
├── LYRICS
├── INSTRUMENTS
├── IMAGE_ANNOTATIONS
│   ├── BOUNDING_BOXES
│   └── LINE_BREAK
├── OTHER
├── MHXM
└── ROOT
"""


def parse_tree(text):
    """-> list of (name, parent or None) in document order."""
    out, stack = [], []
    for line in text.splitlines():
        m = re.match(r'^((?:│   |    )*)(?:├── |└── )(?:TokenCategory\.)?([A-Z_]+)\s*$', line)
        if not m:
            continue
        depth = len(m.group(1)) // 4
        name = m.group(2)
        stack = stack[:depth]
        out.append((name, stack[-1] if stack else None))
        stack.append(name)
    return out


def documented(repo='/repo'):
    src = 'pinned copy of the README tree'
    entries = None
    p = os.path.join(os.environ.get('KERNPY_SRC', repo), 'README.md')
    try:
        with open(p, encoding='utf-8') as f:
            txt = f.read()
        # the first tree block that starts with STRUCTURAL
        blocks = re.findall(r'((?:^[│ ├└─]+[A-Za-z_.]+ *\n)+)', txt, flags=re.M)
        for b in blocks:
            e = parse_tree(b)
            if e and e[0][0] == 'STRUCTURAL' and len(e) >= 30:
                entries, src = e, p
                break
    except OSError:
        pass
    if entries is None:
        entries = parse_tree(PINNED)
    return entries, src


class Model:
    def __init__(self, entries):
        self.order = [n for n, _ in entries]
        self.parent = dict(entries)
        self.kids = {n: [] for n in self.order}
        for n, p in entries:
            if p is not None:
                self.kids[p].append(n)

    def ancestors_or_self(self, n):
        out = []
        while n is not None:
            out.append(n)
            n = self.parent[n]
        return out

    def descendants(self, n):          # strict
        out = []
        for k in self.kids[n]:
            out.append(k)
            out += self.descendants(k)
        return out

    def closure(self, n):
        return [n] + self.descendants(n)

    def leaves(self, n):               # strict descendants without children
        return [d for d in self.descendants(n) if not self.kids[d]]
