"""Parser stubs (DESIGN 2.4).  They replace only the ANTLR-backed spine importers, never code
that a property anchors (importer.py, document.py, exporter.py, tokens.py ... always run for real)."""
from __future__ import annotations

import contextlib

from kernpy.core import importer as _imp
from kernpy.core import tokens as tk


CALLS = {'n': 0}


def used():
    CALLS['n'] += 1


def require_used():
    """The obligation is only meaningful if kernpy actually went through the stub.  After a refactoring that by-passes the
    patched name the path is discarded (the obligation then reports INCONCLUSIVE, never an alarm)."""
    if CALLS['n'] == 0:
        from crosshair.util import IgnoreAttempt
        raise IgnoreAttempt('stub not reached')


class StubSpineImporter:
    """import_token(text) returns a token built directly from kernpy's own token classes.
    Contract: encoding == cell text, category = the one the real importer of that spine type assigns
    to free text (validated against the real importers on the corpus by the obligations that use it)."""

    def __init__(self, category=tk.TokenCategory.LYRICS, raise_on=None):
        self.category = category
        self.raise_on = raise_on          # predicate text -> bool: cells the 'parser' rejects

    def import_token(self, text):
        used()
        if self.raise_on is not None and self.raise_on(text):
            raise Exception('stub parser: malformed token')
        return tk.SimpleToken(text, self.category)


@contextlib.contextmanager
def stub_importers(factory):
    """factory(header) -> importer object; installed in place of kernpy.core.importer.createImporter."""
    orig = _imp.createImporter
    CALLS['n'] = 0
    _imp.createImporter = factory
    try:
        yield
    finally:
        _imp.createImporter = orig
