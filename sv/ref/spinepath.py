"""Reference spine-path model (Humdrum syntax level, independent of kernpy's importer).

A text is a list of rows (lists of cells).  The model tracks the live columns,
applies the spine operators and yields, for every cell, its expected parent cell,
spine id and header.  It is also the well-formedness validator used for excerpts.
"""
from __future__ import annotations

from dataclasses import dataclass

OPS = ('*', '*^', '*v', '*-')


@dataclass
class Cell:
    row: int            # index among the non-empty, non-global-comment... (see analyse: index among non-empty lines)
    col: int
    text: str
    parent: tuple       # (row, col) of the parent cell or None (root / preceding global comment)
    spine: int          # 0-based spine id (-1 for global comments before the header)
    header: str


class Malformed(Exception):
    pass


def analyse(rows):
    """rows: list of cell lists (non-empty lines only, in order).
    Returns list (per row) of list of Cell.  Raises Malformed on a violation of the
    spine-path rules: header first (after optional global comments), cell count equal to the live
    columns, joins only in runs >= 2 within one spine, every spine terminated, nothing after."""
    out = []
    live = None          # list of (parent (row, col), spine id, header)
    last_pre = None      # last global comment before the header
    terminated_all = False
    for r, cells in enumerate(rows):
        if len(cells) == 1 and cells[0].startswith('!!'):
            if live is None:
                out.append([Cell(r, 0, cells[0], last_pre, -1, '')])
                last_pre = (r, 0)
            elif terminated_all:
                out.append([Cell(r, 0, cells[0], None, -1, '')])
            else:
                # a global comment inside the spines: one line, belongs to no particular spine
                out.append([Cell(r, 0, cells[0], None, -1, '')])
            continue
        if live is None:
            if not all(c.startswith('**') for c in cells):
                raise Malformed(f'row {r}: first non-comment line is not a header line: {cells}')
            live = [((r, j), j, c) for j, c in enumerate(cells)]
            out.append([Cell(r, j, c, last_pre, j, c) for j, c in enumerate(cells)])
            continue
        if terminated_all:
            raise Malformed(f'row {r}: content after all spines were terminated')
        if any(c.startswith('**') for c in cells):
            raise Malformed(f'row {r}: second header line')
        if len(cells) != len(live):
            raise Malformed(f'row {r}: {len(cells)} cells for {len(live)} live spine paths')
        row_out = []
        new_live = []
        is_op_row = all(c.startswith('*') for c in cells)
        j = 0
        while j < len(cells):
            c = cells[j]
            par, sp, hd = live[j]
            row_out.append(Cell(r, j, c, par, sp, hd))
            if is_op_row and c == '*-':
                pass
            elif is_op_row and c == '*^':
                new_live.append(((r, j), sp, hd))
                new_live.append(((r, j), sp, hd))
            elif is_op_row and c == '*v':
                k = j
                while k + 1 < len(cells) and cells[k + 1] == '*v' and live[k + 1][1] == sp:
                    k += 1
                    row_out.append(Cell(r, k, cells[k], live[k][0], live[k][1], live[k][2]))
                if k == j:
                    raise Malformed(f'row {r}: lone *v in column {j}')
                new_live.append(((r, j), sp, hd))      # merged path descends from the first join cell
                j = k
            elif c in ('*+', '*x'):
                raise Malformed(f'row {r}: operator {c} not modelled')
            else:
                new_live.append(((r, j), sp, hd))
            j += 1
        out.append(row_out)
        live = new_live
        if not live:
            terminated_all = True
    if live is None:
        raise Malformed('no header line')
    if live:
        raise Malformed(f'{len(live)} spine paths not terminated')
    return out


def well_formed(text: str):
    """-> '' if the text is a well-formed Humdrum document per the model, else the reason."""
    rows = [ln.split('\t') for ln in text.split('\n') if ln != '']
    try:
        analyse(rows)
    except Malformed as e:
        return str(e)
    return ''


# ---------------------------------------------------------------- layout enumeration
def step_ok(live_spines, ops, max_cols=4):
    """Is this operator assignment (one op per live column) legal?  live_spines: spine id per column."""
    n = len(live_spines)
    if len(ops) != n:
        return False
    j = 0
    width = 0
    while j < n:
        o = ops[j]
        if o == '*v':
            k = j
            while k + 1 < n and ops[k + 1] == '*v' and live_spines[k + 1] == live_spines[j]:
                k += 1
            if k == j:
                return False
            width += 1
            j = k
        elif o == '*^':
            width += 2
        elif o == '*':
            width += 1
        j += 1
    return width <= max_cols


def apply_ops(live_spines, ops):
    out = []
    j = 0
    n = len(live_spines)
    while j < n:
        o = ops[j]
        if o == '*v':
            k = j
            while k + 1 < n and ops[k + 1] == '*v' and live_spines[k + 1] == live_spines[j]:
                k += 1
            out.append(live_spines[j])
            j = k
        elif o == '*^':
            out += [live_spines[j], live_spines[j]]
        elif o == '*':
            out.append(live_spines[j])
        j += 1
    return out


def enumerate_layouts(n_spines, depth, max_cols=4, allow_all_null=False):
    """All sequences of <= depth operator rows obeying the rules; each layout is a tuple of op tuples.
    A layout ends when all columns are terminated or depth is reached (the builder then terminates)."""
    import itertools
    res = []

    def rec(live, acc):
        if len(acc) == depth or not live:
            res.append(tuple(acc))
            return
        for ops in itertools.product(OPS, repeat=len(live)):
            if not allow_all_null and all(o == '*' for o in ops):
                continue
            if not step_ok(live, ops, max_cols):
                continue
            nxt = apply_ops(live, ops)
            rec(nxt, acc + [ops])
    rec(list(range(n_spines)), [])
    return res


NOTE_POOL = ['4c', '4d', '4e', '4f', '4g', '4a', '4b', '8c', '8d', '8e', '8f', '8g', '8a', '8b', '2c', '2d', '2e', '2f', '2g', '2a',
             '2b', '16c', '16d', '16e', '16f', '16g', '16a', '16b', '4cc', '4dd', '4ee', '4ff', '4gg', '4aa', '4bb', '8cc', '8dd', '8ee',
             '8ff', '8gg', '8aa', '8bb', '2cc', '2dd', '2ee', '2ff', '2gg', '2aa', '2bb']
WORD_POOL = ['ka', 'ke', 'ki', 'ko', 'ku', 'sa', 'se', 'si', 'so', 'su', 'ta', 'te', 'ti', 'to', 'tu', 'na', 'ne', 'ni', 'no', 'nu',
             'ha', 'he', 'hi', 'ho', 'hu', 'ma', 'me', 'mi', 'mo', 'mu', 'ya', 'yo', 'yu', 'ra', 're', 'ri', 'ro', 'ru', 'wa', 'wo']


def build_rows(headers, layout, data_cell=None, lead_data=True):
    """Rows of the text for a layout: header row, a data row, then (operator row, data row)* and the
    final terminators.  data_cell(k, spine_id, header) -> text of the k-th data cell."""
    counter = [0]

    def cell(sp):
        k = counter[0]
        counter[0] += 1
        if data_cell is not None:
            return data_cell(k, sp, headers[sp])
        return NOTE_POOL[k % len(NOTE_POOL)] if headers[sp] in ('**kern', '**root') else WORD_POOL[k % len(WORD_POOL)]

    rows = [list(headers)]
    live = list(range(len(headers)))
    if lead_data:
        rows.append([cell(sp) for sp in live])
    for ops in layout:
        rows.append(list(ops))
        live = apply_ops(live, ops)
        if live:
            rows.append([cell(sp) for sp in live])
    if live:
        rows.append(['*-'] * len(live))
    return rows


def to_text(rows):
    return '\n'.join('\t'.join(r) for r in rows) + '\n'


def curated_layouts():
    """Deep layouts beyond the enumeration depth: nested splits, stepwise and n-way joins, several join
    groups of one spine on one line, joins next to another spine (up to 5 live columns)."""
    C = [
        (('**kern',), [('*^',), ('*^', '*^'), ('*^', '*', '*', '*'), ('*v', '*v', '*', '*v', '*v'), ('*v', '*v', '*v')]),
        (('**kern',), [('*^',), ('*^', '*^'), ('*v', '*v', '*v', '*v')]),
        (('**kern',), [('*^',), ('*', '*^'), ('*', '*v', '*v'), ('*v', '*v')]),
        (('**kern', '**kern'), [('*^', '*'), ('*^', '*', '*'), ('*v', '*v', '*', '*'), ('*v', '*v', '*')]),
        (('**kern', '**kern'), [('*^', '*'), ('*^', '*', '*'), ('*v', '*v', '*v', '*')]),
        (('**kern', '**kern'), [('*', '*^'), ('*', '*', '*^'), ('*', '*', '*v', '*v'), ('*', '*v', '*v')]),
        (('**kern', '**kern'), [('*^', '*^'), ('*v', '*v', '*v', '*v')]),
        (('**kern', '**kern'), [('*^', '*^'), ('*', '*^', '*', '*'), ('*', '*v', '*v', '*v', '*v')]),
        (('**kern', '**text'), [('*^', '*'), ('*', '*^', '*'), ('*', '*v', '*v', '*'), ('*v', '*v', '*')]),
        (('**text', '**kern', '**kern'), [('*', '*^', '*'), ('*', '*^', '*', '*'), ('*', '*v', '*v', '*', '*'), ('*', '*v', '*v', '*')]),
        (('**kern', '**harm', '**foo'), [('*^', '*', '*'), ('*^', '*', '*', '*'), ('*v', '*v', '*v', '*', '*')]),
        (('**kern', '**kern', '**harm'), [('*', '*^', '*'), ('*^', '*', '*', '*'), ('*v', '*v', '*v', '*v', '*')]),
    ]
    out = []
    for heads, lay in C:
        live = list(range(len(heads)))
        for ops in lay:
            assert step_ok(live, ops, max_cols=6), (heads, ops)
            live = apply_ops(live, ops)
        out.append((heads, tuple(tuple(o) for o in lay)))
    return out
