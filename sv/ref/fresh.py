"""Fresh-interpreter histories: what the FIRST call of an interpreter was must not show in a later call.

A change that keeps state for the life of the process (a tokenizer / options / selection cached on first use) is right in every
single call and in every call sequence that happens to start with the 'usual' call; inside a long-lived worker process the
first call is whatever the exploration happened to run first.  Here the sequence is explicit: a new python interpreter, a
prelude call, then the observed calls; results come back as JSON.  kernpy is imported from the same tree as in this process.
"""
from __future__ import annotations

import json
import os
import subprocess
import sys

PRELUDES = (
    ('nothing', 'pass'),
    ('dumps(exclude=[DECORATION])', 'kp.dumps(doc, exclude=[T.DECORATION])'),
    ('spine_types(doc)', 'kp.spine_types(doc)'),
    ('dumps(include=[BARLINES, SIGNATURES], bekern)', 'kp.dumps(doc, include=[T.BARLINES, T.SIGNATURES], encoding=kp.Encoding.bEkern)'),
    ('dumps(agnosticExtendedKern)', 'kp.dumps(doc, encoding=kp.Encoding.agnosticExtendedKern)'),
    ('dumps(spine_ids=[1])', 'kp.dumps(doc, spine_ids=[1])'),
    ('dumps(from_measure=1, to_measure=1)', 'kp.dumps(doc, from_measure=1, to_measure=1)'),
    ('get_all_tokens(filter=[CORE])', 'doc.get_all_tokens(filter_by_categories=[T.CORE])'),
    ('another document exported with exclude=[PITCH]', 'kp.dumps(other, exclude=[T.PITCH], encoding=kp.Encoding.eKern)'),
    ('dumps(ekern, exclude=[DURATION]) of another document', 'kp.dumps(other, exclude=[T.DURATION], encoding=kp.Encoding.eKern)'),
)

_PROG = '''import json, sys
import kernpy as kp
from kernpy import TokenCategory as T
text, other_text = json.loads(sys.argv[1])
doc, errs = kp.loads(text)
other, _ = kp.loads(other_text)
try:
    {prelude}
except Exception as e:
    pass
out = {{}}
E = kp.Encoding
REQ = {requests}
for name, kw in REQ.items():
    kw = dict(kw)
    if 'encoding' in kw:
        kw['encoding'] = E[kw['encoding']]
    for k in ('include', 'exclude'):
        if k in kw:
            kw[k] = [T[n] for n in kw[k]]
    try:
        out[name] = ['ok', kp.dumps(doc, **kw)]
    except Exception as e:
        out[name] = ['raises', type(e).__name__]
print(json.dumps(out))
'''


def exports_after(prelude: int, text: str, other_text: str, requests: dict) -> dict:
    """requests: name -> keyword dict for kp.dumps (encoding as Encoding member NAME, include/exclude as category NAMES).
    Returns name -> ['ok', text] | ['raises', exception name]."""
    import kernpy as kp
    prog = _PROG.format(prelude=PRELUDES[prelude][1], requests=repr(requests))
    env = dict(os.environ)
    root = os.path.dirname(os.path.dirname(os.path.abspath(kp.__file__)))
    env['PYTHONPATH'] = root + (os.pathsep + env['PYTHONPATH'] if env.get('PYTHONPATH') else '')
    pr = subprocess.run([sys.executable, '-c', prog, json.dumps([text, other_text])], env=env, capture_output=True, text=True, timeout=300)
    if pr.returncode != 0:
        raise RuntimeError(f'fresh interpreter failed after prelude {PRELUDES[prelude][0]}: {pr.stderr[-400:]}')
    return json.loads(pr.stdout.strip().split('\n')[-1])


ENC_MODEL = {'normalizedKern': 'kern', 'eKern': 'ekern', 'bKern': 'bkern', 'bEkern': 'bekern'}


def mismatches(prelude: int, D, other_text: str, requests: dict) -> list:
    """Run the requests after the prelude in a fresh interpreter and compare each export with the cell model of document D
    (sv/ref/cells.Doc without spine splits).  requests: name -> dumps keywords as in exports_after, plus optional 'cols'
    (kept column indices) describing what spine_ids / spine_types in the keywords select.  Returns messages (empty = all equal)."""
    from . import cats as refcats
    from . import cells
    entries, _ = refcats.documented()
    tree = refcats.Model(entries)
    names = list(tree.order)
    send = {k: {a: b for a, b in v.items() if a != 'cols'} for k, v in requests.items()}
    got = exports_after(prelude, D.text(), other_text, send)
    bad = []
    for name, kw in requests.items():
        sel = set()
        for n in (kw.get('include') if kw.get('include') is not None else names):
            sel.update(tree.closure(n))
        for n in kw.get('exclude') or []:
            sel.difference_update(tree.closure(n))
        cols = kw.get('cols')
        exp = D.expected(ENC_MODEL[kw.get('encoding', 'normalizedKern')], keep=lambda c: c in sel,
                         col_keep=(lambda r, j: j in cols) if cols is not None else None)
        g = got[name]
        if g[0] != 'ok':
            bad.append(f'after {PRELUDES[prelude][0]} as the first call of an interpreter, dumps({send[name]}) raised {g[1]}')
        elif not cells.rows_equal(cells.parse_grid(g[1]), exp):
            bad.append(f'after {PRELUDES[prelude][0]} as the first call of an interpreter, dumps({send[name]}) = {cells.parse_grid(g[1])}, cell model {exp}')
    return bad
