"""Cell model: the generator's own abstract description of every cell (independent of kernpy's
parser), from which the source text, the expected parts with their categories and the expected
export in every encoding are derived.
"""
from __future__ import annotations

from dataclasses import dataclass, field

TS = '@'      # token separator
DS = '·'      # decoration separator
NULLISH = ('.', '*', '')


@dataclass(frozen=True)
class Note:
    dur: str = '4'            # '' = no duration
    dots: int = 0
    mark: str = ''            # q qq p P written after the duration
    pitch: str = 'c'          # letters; 'r' / 'rr' for a rest
    acc: str = ''             # # ## - -- n ...
    disp: str = ''            # accidental display suffix
    decs: tuple = ()          # ((position, text), ...) position 0 before duration, 1 between duration and pitch,
    #                           2 between pitch and accidental, 3 after; in written order
    kind: str = 'note'

    @property
    def is_rest(self):
        return self.pitch[0] == 'r'

    def source(self):
        d = {0: '', 1: '', 2: '', 3: ''}
        for pos, txt in self.decs:
            d[pos] += txt
        return d[0] + self.dur + '.' * self.dots + self.mark + d[1] + self.pitch + d[2] + self.acc + self.disp + d[3]

    def pd_parts(self):
        """Expected pitch/duration parts in canonical order with their category names."""
        out = []
        if self.dur:
            out.append((self.dur, 'DURATION'))
        out += [('.', 'DURATION')] * self.dots
        if self.mark:
            out.append((self.mark, 'DURATION'))
        if self.is_rest:
            out.append(('r', 'REST'))
        else:
            out.append((self.pitch, 'PITCH'))
            if self.acc or self.disp:
                out.append((self.acc + self.disp, 'ALTERATION'))
        return out

    def dec_set(self):
        texts = [t for _, t in self.decs]
        if self.is_rest:
            texts = [t for t in texts if t not in ('/', '\\')]    # stems on rests are discarded by design (grammar comment)
        return sorted(set(texts))

    def ekern(self, keep=None, decs=None, ts=TS, dsep=DS):
        """Extended export; keep(category name) -> bool filters parts; decs overrides the decoration set (chords).
        With ts = dsep = '' this is the plain encoding (parts concatenated, never altered)."""
        keep = keep or (lambda c: True)
        pd = [t for t, c in self.pd_parts() if keep(c)]
        ds = (self.dec_set() if decs is None else decs) if keep('DECORATION') else []
        s = ts.join(pd)
        if ds:
            s += dsep + dsep.join(ds)
        return s

    def basic(self, keep=None, ts=TS):
        keep = keep or (lambda c: True)
        return ts.join(t for t, c in self.pd_parts() if keep(c))


def Rest(dur='4', dots=0, decs=(), mark=''):
    return Note(dur=dur, dots=dots, mark=mark, pitch='r', decs=decs, kind='rest')


@dataclass(frozen=True)
class Chord:
    notes: tuple
    kind: str = 'chord'

    def source(self):
        return ' '.join(n.source() for n in self.notes)

    def shared_decs(self):
        out = set()
        for n in self.notes:
            out.update(n.dec_set())
        return sorted(out)


@dataclass(frozen=True)
class Bar:
    double: bool = False
    number: str = ''
    ab: str = ''
    hidden: bool = False
    type: str = ''
    fermata: bool = False
    kind: str = 'bar'

    def source(self):
        return '=' + ('=' if self.double else '') + self.number + self.ab + ('-' if self.hidden else '') + self.type + (';' if self.fermata else '')

    def exported(self):
        return '=' + ('=' if self.double else '') + self.type + (';' if self.fermata else '')


@dataclass(frozen=True)
class Simple:
    text: str
    category: str             # category name the token must carry
    kind: str = 'simple'

    def source(self):
        return self.text


def Header(t):
    return Simple(t, 'HEADER', 'header')


def Op(t):
    return Simple(t, 'SPINE_OPERATION', 'op')


def Null(t='.'):
    return Simple(t, 'EMPTY', 'null')


def FieldComment(t):
    return Simple(t, 'FIELD_COMMENTS', 'fcomment')


SIG_CATS = ('CLEF', 'TIME_SIGNATURE', 'METER_SYMBOL', 'KEY_SIGNATURE', 'KEY_TOKEN', 'SIGNATURES')


def cell_category(cell):
    if isinstance(cell, Note):
        return 'NOTE_REST'
    if isinstance(cell, Chord):
        return 'CHORD'
    if isinstance(cell, Bar):
        return 'BARLINES'
    return cell.category


def placeholder(cell):
    return '*' if cell_category(cell) in SIG_CATS else '.'


PREFIX = {'kern': '', 'ekern': 'e', 'bkern': 'b', 'bekern': 'be', 'akern': 'a', 'aekern': 'ae'}


def export_cell(cell, enc='ekern', keep=None, to_agnostic=None):
    """Expected export of one cell under an encoding and a category predicate keep(name)->bool.
    Returns the text; a cell of an unselected category becomes its placeholder."""
    keep = keep or (lambda c: True)
    ext = enc in ('ekern', 'bekern', 'aekern')
    basic = enc in ('bkern', 'bekern')

    ts, dsep = (TS, DS) if ext else ('', '')

    def strip(s):
        return s

    def one(n, decs=None):
        if to_agnostic is not None and not n.is_rest:
            return _agnostic_note(n, keep, decs, basic, to_agnostic, ts, dsep)
        return n.basic(keep, ts) if basic else n.ekern(keep, decs, ts, dsep)

    if isinstance(cell, Note):
        s = one(cell)
        return strip(s) if s else '*'          # an emptied note: kernpy writes EMPTY_TOKEN
    if isinstance(cell, Chord):
        if not keep('CHORD'):
            return '.'
        sh = cell.shared_decs()
        parts = [(one(n, sh) or '*') for n in cell.notes]
        return strip(' '.join(parts))
    if isinstance(cell, Bar):
        if cell.hidden or not keep('BARLINES'):
            return '.'
        return cell.exported()
    if cell.kind == 'header':
        if not keep('HEADER'):
            return '.'
        return '**' + PREFIX[enc] + cell.text[2:]
    if not keep(cell.category):
        return placeholder(cell)
    return cell.text


def _agnostic_note(n, keep, decs, basic, to_agnostic, ts=TS, dsep=DS):
    """Agnostic encodings fuse pitch+accidental into one converted part placed after the durations."""
    if not keep('PITCH'):
        # nothing to convert: the remaining parts are written as in the non-agnostic encodings
        return n.basic(keep, ts) if basic else n.ekern(keep, decs, ts, dsep)
    durs = [t for t, c in n.pd_parts() if c == 'DURATION' and keep(c)]
    pa = ''.join(t for t, c in n.pd_parts() if c in ('PITCH', 'ALTERATION') and keep(c))
    parts = list(durs)
    if pa:
        parts.append(to_agnostic(pa))
    s = ts.join(parts)
    if not basic and keep('DECORATION'):
        ds = n.dec_set() if decs is None else decs
        if ds:
            s += dsep + dsep.join(ds)
    return s


def null_eq(a, b):
    return a == b or (a in NULLISH and b in NULLISH)


def rows_equal(got_rows, exp_rows):
    """Grid equality where any null placeholder equals any other null placeholder (the property
    speaks of 'a null placeholder' without fixing the character)."""
    if len(got_rows) != len(exp_rows):
        return False
    for g, e in zip(got_rows, exp_rows):
        if len(g) != len(e):
            return False
        for a, b in zip(g, e):
            if not null_eq(a, b):
                return False
    return True


@dataclass
class Doc:
    """A document as rows of abstract cells.  Global comments are rows with one Simple cell of kind 'gcomment'."""
    rows: list

    def text(self):
        return ''.join('\t'.join(c.source() for c in r) + '\n' for r in self.rows)

    def expected(self, enc='ekern', keep=None, col_keep=None, to_agnostic=None):
        """Expected export: rows of cells.  keep(category name) -> bool; col_keep(row index, col index) -> bool;
        to_agnostic(row, col) -> converter or None."""
        out = []
        for r, row in enumerate(self.rows):
            if len(row) == 1 and row[0].kind == 'gcomment':
                continue
            cells = []
            for j, c in enumerate(row):
                if col_keep is not None and not col_keep(r, j):
                    continue
                conv = to_agnostic(r, j) if to_agnostic is not None else None
                cells.append(export_cell(c, enc, keep, conv))
            if len(cells) > 0 and not all(x in NULLISH for x in cells):
                out.append(cells)
        return out


def GComment(t):
    return Simple(t, 'LINE_COMMENTS', 'gcomment')


def parse_grid(text):
    return [ln.split('\t') for ln in text.split('\n') if ln != '']
