"""Selector alphabets, classified on every run by the CURRENT parser (DESIGN 3.3).

Candidate pieces are hard-coded (printable ASCII + the multi-character forms named in the
grammar); a candidate enters an alphabet only with the class the current grammar gives it.
Each alphabet has a fixed CORE (read off the grammar file) that is used unconditionally, so a
change that makes the parser drop or re-classify a core member is reported as a violation,
not absorbed by a shrinking domain.
"""
from __future__ import annotations

import string

from kernpy.core.kern_spine_importer import KernSpineImporter
from kernpy.core import tokens as tk

# ---- cores (unconditional)
DEC_CORE = ['L', 'J', 'K', 'k', ';', '(', ')', '[', ']', '_', "'", '^', '~', '/', '\\', ':', 't', 'M', 'm', 'w', '{', '}',
            '"', '`', 's', 'S', '$', 'O', 'N', 'V', 'l', 'i', 'j', 'X', 'Z']            # the 30+ signifiers that do not combine (property C01); checked pairwise below
CANON_CORE = list(DEC_CORE)        # none of these combines with a neighbour or with itself (checked on every run, a failure is a finding of C01.b)
DEC_ONLY_CORE = ['T', 'W']         # accepted signifiers that combine with themselves / a neighbour: part of C03's grids, not of canonicity
REST_DEC_CORE = [';', '(', ')', '{', '}', "'"]
DUR_CORE = ['1', '2', '4', '8', '16']
ACC_CORE = ['#', '-', 'n', '##', '--']
BARTYPE_CORE = ['||', '|!', '|!:', '|:', '!|:', ':|!', ':|!|:', ':||:', ':!:', ':!!:', '=']
DISPLAY = ['x', 'X', 'i', 'I', 'j', 'Z', 'y', 'yy', 'Y', 'YY']
COMBINING = ['<', '>', '?', 'x', 'y', '&']         # excluded from canonicity by the property

DEC_CANDIDATES = [c for c in string.printable if c not in string.whitespace] + \
    ['qq', 'yy', 'y@', 'xx', 'TT', 'Ww', '[y', '&(', '&)', 'L<', 'J>', '[<', ']>', '_<', '??', 'yyy']
DUR_CANDIDATES = ['1', '2', '4', '8', '16', '32', '64', '3', '6', '12', '24', '0', '00', '3%2', '40', '128']
ACC_CANDIDATES = ['#', '##', '###', '-', '--', '---', 'n']
TANDEM_CANDIDATES = ['*clefG2', '*clefF4', '*clefC3', '*clefC1', '*clefGv2', '*clefG^^2', '*clefF3', '*clefC2', '*clefC4', '*clefX',
                     '*k[]', '*k[f#]', '*k[b-e-]', '*k[f#c#g#]', '*kcancel',
                     '*M4/4', '*M3/4', '*M6/8', '*M2/2', '*M3+2/8', '*met(c)', '*met(c|)', '*M(c)', '*met(C)', '*met(O.)',
                     '*C:', '*a:', '*F#:', '*b-:', '*d:dor', '*?:',
                     '*MM120', '*MM60', '*8va', '*X8va', '*8ba', '*staff1', '*staff2', '*staff1/2', '*part1', '*group1',
                     '*Ipiano', '*I"Organo', '*mIfoo', '*ITrd1c2', '*Trd1c2', '*>A', '*>[A,B]', '*>norep[A,B]', '*lh', '*rh',
                     '*above', '*below', '*centered', '*ped', '*Xped', '*tb8', '*tuplet', '*Xtuplet', '*cue', '*Xcue',
                     '*rscale:2', '*rscale:1/2', '*solo', '*accomp', '*strophe', '*tremolo', '*Xtremolo', '*tstart', '*tend',
                     '*S/sic', '*S/ossia', '*ela', '*xywh-1:10,20,30,40', '*', '.']


# ---- pinned members: everything below is part of the **kern vocabulary named in the grammar file and was accepted, with the class
# stated, by the parser of the pinned tree.  A member the CURRENT parser no longer gives that class is still generated (appended
# after the members obtained by probing, so that selector indices do not move on an unchanged tree): the obligations then report
# the lost / re-classified member as a violation of C01 / C03 instead of silently checking a smaller domain.
DUR_PINNED = ['1', '2', '4', '8', '16', '32', '64', '3', '6', '12', '24', '0', '00', '3%2', '40', '128',
              '4%2', '6%4', '3%1', '2%3']       # rational durations that are not in lowest terms / over 1 / below 1: written as they are
ACC_PINNED = ['#', '-', 'n', '##', '--', '###', '---']
DISP_PINNED = ['x', 'X', 'i', 'I', 'j', 'Z', 'y', 'yy', 'Y', 'YY']
DEC_PINNED = DEC_CORE + DEC_ONLY_CORE + ['p', 'q', 'x', 'y', 'P', '.', '<', '>', '?', 'qq', 'yy', 'y@', 'xx', 'Ww', '[y', '&(', '&)', 'L<', 'J>', '[<', ']>', '_<', '??', 'yyy']
REST_DEC_PINNED = REST_DEC_CORE + ['q', 'y', 'X', '.', '<', '>', 'qq', 'yy', 'y@', '&(', '&)', 'yyy']
TANDEM_PINNED = [t for t in TANDEM_CANDIDATES if t != '*clefX']


def with_pinned(current, pinned):
    return list(current) + [m for m in pinned if m not in current]


class Parser:
    """Thin wrapper: a fresh KernSpineImporter per token (parse outcomes must not depend on history: C12)."""

    def __init__(self):
        self.n = 0

    def parse(self, text):
        self.n += 1
        try:
            return KernSpineImporter().import_token(text)
        except Exception:
            return None


def classify(base='4c'):
    """-> dict of alphabets obtained from the current parser."""
    P = Parser()
    out = {}
    # ---- note decorations: '4c'+s is a note whose only decoration is s
    dec = []
    for s in DEC_CANDIDATES:
        t = P.parse(base + s)
        if isinstance(t, tk.NoteRestToken) and [d.encoding for d in t.decoration_subtokens] == [s] \
                and [x.encoding for x in t.pitch_duration_subtokens] == ['4', 'c']:
            dec.append(s)
    out['dec'] = dec
    # ---- canonical subset: pairwise non-combining ('4c'+s+t yields exactly {s, t})
    canon = [s for s in dec if s not in COMBINING and s not in ('q', 'qq', 'p', 'P', '.')]
    # a signifier that combines with ITSELF under repetition ('TT' is an extended trill, '??' one footnote) is not canonical
    for s in list(canon):
        tok = P.parse(base + s + s)
        if not (isinstance(tok, tk.NoteRestToken) and [d.encoding for d in tok.decoration_subtokens] == [s]
                and [x.encoding for x in tok.pitch_duration_subtokens] == ['4', 'c']):
            canon.remove(s)
    changed = True
    while changed:
        changed = False
        for s in list(canon):
            for t in canon:
                if s == t:
                    continue
                tok = P.parse(base + s + t)
                got = sorted(d.encoding for d in tok.decoration_subtokens) if isinstance(tok, tk.NoteRestToken) else None
                pd = [x.encoding for x in tok.pitch_duration_subtokens] if isinstance(tok, tk.NoteRestToken) else None
                if got != sorted([s, t]) or pd != ['4', 'c']:
                    # the pair combines (e.g. 'T'+'T' -> 'TT', 'W'+'w' -> 'Ww'): drop the member that is not in the core, else the later one
                    victim = t if (t not in DEC_CORE or s in DEC_CORE and DEC_CORE.index(t) > DEC_CORE.index(s)) else s
                    if victim in canon:
                        canon.remove(victim)
                        changed = True
                    break
            if changed:
                break
    out['canon'] = canon
    # ---- rest decorations
    out['restdec'] = []
    for s in DEC_CANDIDATES:
        t = P.parse('4r' + s)
        if isinstance(t, tk.NoteRestToken) and [d.encoding for d in t.decoration_subtokens] == [s] \
                and [x.encoding for x in t.pitch_duration_subtokens] == ['4', 'r']:
            out['restdec'].append(s)
    # ---- durations
    out['dur'] = []
    for s in DUR_CANDIDATES:
        t = P.parse(s + 'c')
        if isinstance(t, tk.NoteRestToken) and [x.encoding for x in t.pitch_duration_subtokens] == [s, 'c'] and not t.decoration_subtokens:
            out['dur'].append(s)
    # ---- accidentals and display suffixes
    out['acc'] = []
    for s in ACC_CANDIDATES:
        t = P.parse('4c' + s)
        if isinstance(t, tk.NoteRestToken) and [x.encoding for x in t.pitch_duration_subtokens] == ['4', 'c', s] and not t.decoration_subtokens:
            out['acc'].append(s)
    out['disp'] = []
    for s in DISPLAY:
        t = P.parse('4c#' + s)
        if isinstance(t, tk.NoteRestToken) and [x.encoding for x in t.pitch_duration_subtokens] == ['4', 'c', '#' + s] and not t.decoration_subtokens:
            out['disp'].append(s)
    # ---- barline types
    out['bartype'] = []
    for s in BARTYPE_CORE:
        t = P.parse('=' + s)
        if isinstance(t, tk.BarToken):
            out['bartype'].append(s)
    # ---- tandem interpretations: text -> (class name, category name)
    out['tandem'] = {}
    for s in TANDEM_CANDIDATES:
        t = P.parse(s)
        if t is not None and t.encoding == s:
            out['tandem'][s] = [type(t).__name__, t.category.name]
        elif s in TANDEM_PINNED:
            out['tandem'][s] = ['(not accepted by the current parser)', '']
    out['parses'] = P.n
    return out


def sizes(a):
    return {k: (len(v) if hasattr(v, '__len__') else v) for k, v in a.items()}


def core_missing(a):
    """Core members the current parser no longer gives their class (reported as violations by C01/C03)."""
    miss = []
    for name, core in (('dec', DEC_CORE), ('restdec', REST_DEC_CORE), ('dur', DUR_CORE), ('acc', ACC_CORE), ('bartype', BARTYPE_CORE)):
        for s in core:
            if s not in a[name]:
                miss.append((name, s))
    return miss


def classify_tandem():
    P = Parser()
    out = {}
    for s in TANDEM_CANDIDATES:
        t = P.parse(s)
        if t is not None and t.encoding == s:
            out[s] = [type(t).__name__, t.category.name]
        elif s in TANDEM_PINNED:
            out[s] = ['(not accepted by the current parser)', '']
    return out
