"""Which properties are claimed, with what wording.  tools/gen_manifest.py turns this into MANIFEST.json."""

BMC = ('Bounded model checking by symbolic execution of the real kernpy code (CrossHair engine, every branch decided by z3): '
       'the property is asserted over symbolic inputs and the path tree is explored to exhaustion inside the stated bounds; '
       'every path representative is re-run natively against /repo and every counterexample is replayed in a fresh process before it is reported. ')
NOTE = ('Trusted: CPython 3.12, CrossHair 0.0.110 engine and proxies (each path cross-checked by native re-execution of a representative), z3 5.1, '
        'the reference oracles under /verif/sv/ref. Claim holds only inside the bounds printed in the evidence; ANTLR only ever receives concrete text. ')

CLAIMED = {
    'C16': dict(
        text=BMC + 'C16: letter, alteration and octave are symbolic integers; import->export->export and directly built pitch objects; all 7x7x11 spellings decided (quick), octaves -3..12 thorough.',
        note=NOTE + 'Octaves outside the bound and the American codec are outside the claim.',
        technique='symbolic execution (CrossHair engine + z3), exhaustive path exploration over symbolic letter/alteration/octave, native replay',
        design='5 C16'),
}

CLAIMED['C11'] = dict(
    engine='E2+E1',
    text='SMT validity plus bounded model checking. E2: TokenCategoryHierarchyMapper.valid and _match are translated from their current source to 37-bit bit-vector terms (nodes() evaluated on the live hierarchy) and the closure algebra of the documented README tree is proved for ALL 2^37 x 2^37 include/exclude pairs (41 unsat queries, None defaults as extra cases). '
         'E1: the forest/parent map, is_child on all 37x37 pairs, children/nodes/leaves on all members, every argument shape (list/tuple/set/single/None) and rejection of foreign members are decided by exhaustive symbolic execution over selector indices; all C(37,3) three-member sets on either side in every container type, and containers changed in place by the caller between two calls (C11.i).',
    note=NOTE + 'The documented tree is the one printed in /repo/README.md (parsed at run time). E2 treats _validate_include/_validate_exclude as the identity on sets; their argument handling is decided separately by C11.d/C11.f.',
    technique='AST->z3 bit-vector translation of valid/_match (unsat for all sets) + CrossHair-engine symbolic execution over category indices',
    design='5 C11')

CLAIMED['C09'] = dict(
    engine='E2+E1',
    text='SMT validity plus bounded model checking. E2: AgnosticPitch.get_chroma and to_transposed are translated from their current source to z3 integer terms with ITE tables built from the live Chromas / ChromasByValue / IntervalsByName objects; exact letter+semitone arithmetic, the inverse law, P1 identity, the octave law and P4+P5=octave are unsat-checked for every table name with at most two accidentals, all 40 intervals, both directions and EVERY integer octave (83 queries). '
         'E1: kernpy.transpose end to end on the 7x5x{octaves}x40x2 spelling grid (solver-enumerated selectors, 11 200 quick / 25 200 thorough) against an independent letter/semitone model; live table sanity.',
    note=NOTE + 'E2 models the AgnosticPitch constructor as a record (name setter validated as identity on the table names) and KeyError as a distinguished value; results not spellable with two accidentals are unconstrained, as the property says.',
    technique='AST->z3 integer translation of get_chroma/to_transposed with live tables (unsat for all octaves) + CrossHair-engine enumeration of the spelling grid',
    design='5 C09')

CLAIMED['C07'] = dict(
    text=BMC + 'C07: from_measure and to_measure are UNBOUNDED symbolic integers (one path covers a whole class such as a<0 or b>M), score shapes (measure count, rows per measure, opening barline, pickup, final barline, 1-2 kern spines, optional text spine) are solver-enumerated; the export is compared line by line with a text-level measure model; partition of data lines and iteration 1..M per shape.',
    note=NOTE + 'Symbolic numbers are rendered opaquely inside kernpy\'s error messages (tripwire-guarded shim). Null cells before the first barline and from_measure=0 are outside the claim.',
    technique='symbolic execution (CrossHair engine + z3) of export_string/export_options_validator with symbolic integer range over solver-enumerated score shapes',
    design='5 C07')

CLAIMED['C19'] = dict(
    text=BMC + 'C19: score shapes of C07, every subset of barline positions as cut set (<= 6 fragments) and the three separators are solver-enumerated selectors; concat() is compared with loads(joined) through a deep structural snapshot, the index pairs are checked for count, consecutiveness and end, and each pair is exported and compared with the data lines of its fragment. (b) Generic.concat\'s index bookkeeping is executed with the prefix import stubbed and the six prefix measure counts as UNBOUNDED symbolic integers (every non-decreasing sequence): pairs consecutive, pair i ends at the count of prefix i, prefixes are the separator-joined fragments.',
    note=NOTE + 'Cuts are placed in front of barline lines; fragments whose first piece has no measure are outside (measures_count() raises by contract).',
    technique='CrossHair-engine symbolic execution of Generic.concat with symbolic integer measure counts (stubbed prefix import) + exhaustive enumeration (z3-decided selectors: shape, cut mask, separator) against a text-level fragment model and structural snapshots',
    design='5 C19')

CLAIMED['C02'] = dict(
    text=BMC + 'C02: (a) every spine-operator layout inside the depth bound (solver-enumerated selector over the layouts generated by the reference spine-path model) is imported by the real importers and the tree is compared cell by cell with the model (stages, order, parent cell, header, spine id); (d) Importer.run is executed on SYMBOLIC data-cell strings behind a stubbed spine importer, showing that structure never depends on cell text; (b) the csv line reader on every string over a quote/comma/space/backslash/non-ASCII alphabet (realised at the C boundary); (c) surplus cells rejected; (e) texts of 40 / 150 / 400 lines in which none, every third or every **kern cell is rejected by the parser, with invisible barlines and a split / join: stages, nodes, parents and the token listing.',
    note=NOTE + 'csv.reader is a C boundary: C02.b is an enumeration of realised strings, labelled so. Global comments inside spines, *+ and *x, several header rows are outside the claim.',
    technique='CrossHair-engine symbolic execution of Importer.run (symbolic cell strings, stub spine importer) + z3-enumerated layout/string selectors against a reference spine-path model',
    design='5 C02')

CLAIMED['C06'] = dict(
    text=BMC + 'C06: spine_ids and spine_types are SYMBOLIC containers (one symbolic boolean per member, or None), so every subset of ids and of types is decided per layout in a handful of paths; layouts come from the reference spine-path model (solver-enumerated selector); the export is compared with the column projection of the full export (sub-spines followed through splits and joins by the model, all-null lines dropped). Public keywords (lists, tuples, None, omitted) and the spine-type query are enumerated on top.',
    note=NOTE + 'More than 3 spines / 4 live columns / the stated operator-row depth are outside the claim.',
    technique='CrossHair-engine symbolic execution of Exporter.export_string/append_row with symbolic membership containers for spine_ids and spine_types over z3-enumerated layouts',
    design='5 C06')

CLAIMED['C05'] = dict(
    text=BMC + 'C05: the selected-category set handed to the exporter is a SYMBOLIC container (37 symbolic booleans), so Exporter.export_string/append_row/NoteRestToken.export are executed for ALL 2^37 selections per document (the path tree forks only on categories the document asks about) and compared with the oracle filter of an independent cell model; the public include/exclude keywords are checked end to end for None, every single category and every pair (three argument styles) against the closure of the documented tree; the closure algebra for arbitrary sets is C11.c (SMT).',
    note=NOTE + 'Documents are the 7 mini documents of the evidence (position independence of the per-cell gate is C13.c); null placeholders compare equal whatever character is used.',
    technique='CrossHair-engine symbolic execution of the exporter with a symbolic category container (all 2^37 selections) + z3-enumerated include/exclude selections, composed with C11 SMT lemma',
    design='5 C05')

CLAIMED['C03'] = dict(
    text=BMC + 'C03: (a) Importer.run + dumps on SYMBOLIC cell text behind a stubbed spine importer returning each of kernpy\'s non-note token classes: every string is reproduced verbatim in place; (c2) the real exitBarline callback on symbolic barline-type/number strings; (b, b2, c, e) slot grids assembled from alphabets that the CURRENT parser classifies (core members unconditional) are exported and compared with the generator\'s own abstract cell description: durations, dots, grace marks, pitch letters, accidentals with display suffix, every accepted signifier in 4 positions, rests, chords, all barline forms, every tandem interpretation and text cell under 8 spine types; (d) grids of pool documents with inserted null rows / global comments.',
    note=NOTE + 'ANTLR receives concrete text only: grammar coverage is the slot alphabets inside the stated slot bounds (solver-enumerated), payload coverage is the symbolic stub tier. Two open known findings (separator characters stripped from any token; hidden barlines dropped).',
    technique='CrossHair-engine symbolic execution of Importer.run/exporter/listener callbacks on symbolic strings (stubbed parser) + z3-enumerated slot grids classified by the real parser, against an independent cell model',
    design='5 C03')

CLAIMED['C01'] = dict(
    text=BMC + 'C01: (c) the ordering / de-duplication lemma is executed on the REAL listener callbacks and NoteRestToken.export with SYMBOLIC payload strings (two decoration texts, duration, pitch and alteration texts chosen by z3) in every delivery script, repetition pattern and both delivery orders; (a) token fixed point through kern and through ekern -> get_kern_from_ekern over slot grids classified by the current parser; (b) canonicity over all ordered pairs of the canonical signifier alphabet (derived by pairwise probing of the parser) x position pairs x repetition patterns; (d, e) document fixed point over pool documents with inserted null rows / comments and over spine-operator layouts with 1-4 spines of all supported types.',
    note=NOTE + 'ANTLR receives concrete text only. Two open known findings (signifier containing the separator character; rest inside a chord inheriting other notes\' signifiers). The extended round trip of non-kern spines is outside the claim.',
    technique='CrossHair-engine symbolic execution of listener callbacks + NoteRestToken.export on symbolic strings; z3-enumerated slot grids / signifier pairs / layouts through the real import-export pipeline',
    design='5 C01')

CLAIMED['C04'] = dict(
    text=BMC + 'C04: (a, a2) the six tokenizers obtained from TokenizerFactory.create are executed on tokens built from kernpy\'s own classes with SYMBOLIC duration / signifier / text payloads under a SYMBOLIC category set: kern == ekern - separators, bkern == bekern - separator, akern == aekern - separators, bekern == ekern without signifiers note by note (chord notes counted), non-note tokens identical in all six; (c) HeaderTokenGenerator.new and Encoding.prefix on a symbolic type string for 6 encodings + 3 aliases; (d) whole documents exported in all six encodings per path of a symbolic category selection (restricted, as the property says, to selections keeping durations or pitches) and compared with the cell model.',
    note=NOTE + 'Which agnostic pitch a note receives is C10\'s subject; payloads are assumed free of the two separator characters (open finding KF-C03-separator-chars).',
    technique='CrossHair-engine symbolic execution of the tokenizer family / header generator on symbolic strings and a symbolic category container; documents under symbolic selections against a cell model',
    design='5 C04')

CLAIMED['C18'] = dict(
    text=BMC + 'C18: (a) createImporter on a SYMBOLIC header string; (a2) the import rule of the seven non-kern spine importers executed with SYMBOLIC cell text for EVERY parse outcome (the kern parse is replaced by a stub that raises or returns a token of any of the 37 categories, an over-approximation of the parser): never raises, shared structure kept as the very parsed token, everything else verbatim text with the spine type\'s own category; (b) the real parser on a corpus covering every tandem interpretation it accepts plus notes, barlines, free text and garbage under each spine type vs **kern; (c) documents presenting the same rows under each type: identical barline detection / measure index.',
    note=NOTE + 'Shared structure is the documented closure of STRUCTURAL, SIGNATURES, EMPTY, BARLINES, IMAGE_ANNOTATIONS, COMMENTS (README tree). **mens and the empty cell are outside.',
    technique='CrossHair-engine symbolic execution of createImporter and the *SpineImporter.import_token rule on symbolic strings with an over-approximating parser stub; z3-enumerated corpus through the real parser',
    design='5 C18')

CLAIMED['C12'] = dict(
    text=BMC + 'C12: (a) every history of 2..3 (quick) / 2..4 (thorough) cell texts from a pool of valid and malformed kinds on ONE KernSpineImporter: each outcome equals the outcome on a fresh importer; (b) documents with blank lines, global comments, split/join and non-kern spines under EVERY damage mask over their **kern data cells: import succeeds, exactly one error per malformed cell with its 1-based line, every other token identical (structural comparison) to the undamaged import, malformed cells exported verbatim in place; (b2) stub tier: Importer.run / ErrorToken / export on a SYMBOLIC rejected cell text; (c) token + garbage either raises or is fully accounted for by the exported token.',
    note=NOTE + 'The malformed pool is classified by the current parser on every run. One open known finding (grammar start rule without EOF drops trailing garbage).',
    technique='CrossHair-engine enumeration (z3-decided selectors) of importer histories and damage masks through the real parser + symbolic execution of Importer.run/ErrorToken on a symbolic malformed string (stubbed parser)',
    design='5 C12')

CLAIMED['C17'] = dict(
    text=BMC + 'C17: (c) get_metacomments is executed with a SYMBOLIC key string (z3 explores every prefix relation with the comment lines); (a) the token listing of every spine-operator layout inside the C02 bounds (plus 12 curated deep layouts) x 7 global-comment plans is compared with the order derived from the reference spine-path model; (b) category-filtered listings, unique listings, encodings and frequencies for None, every single category and every pair in three argument shapes on 7 documents (one with the same text under different categories) against the closure of the documented tree; (d) is_monophonic on documents toggling each conjunct, with the chord or the only note in the unsplit part, the left or the right sub-spine of a split, cross-checked with the CHORD listing.',
    note=NOTE + 'Filters of more than two categories rely on C11.c (closure algebra for arbitrary sets) and C11.i (all sets of three).',
    technique='CrossHair-engine symbolic execution of get_metacomments on a symbolic key + z3-enumerated layouts / filter selections through the real traversal code against spine-path and category-tree models',
    design='5 C17')

CLAIMED['C10'] = dict(
    engine='E2+E1',
    text='SMT validity plus bounded model checking. E2: PitchPositionReferenceSystem.compute_position, PositionInStaff.line/space/is_line and the integer assignments (distance, idx, octs) of gkern_to_g_clef_pitch are translated from their current source and the position lemma is unsat-checked for EVERY integer octave, base pitch and staff position (5 queries). '
         'E1: pitch_to_gkern_string on the full 7 clefs x 5 octave marks x 7 letters x 5 accidentals x octaves 0..8 grid (11 025 solver-enumerated cases: same position under G2, G2 identity, bottom line -> e, one step up, argument untouched); documents with clef changes mid-score, chords, a split with staggered clef changes and a join: akern/aekern compared cell by cell with kern/ekern converted under the clef in force on each spine path (reference spine-path model); (d) single notes and chord notes with a natural sign or any of the 11 accidental-display suffixes through loads -> dumps(akern / aekern): letters moved, accidental and suffix unchanged.',
    note=NOTE + 'Positions are anchored at the clef\'s own bottom_line(), as the property words it.',
    technique='AST->z3 integer translation of the staff-position kernels (unsat for all octaves) + CrossHair-engine enumeration of the clef/pitch grid and of documents against a text-level clef-in-force model',
    design='5 C10')

CLAIMED['C15'] = dict(
    text=BMC + 'C15: solver-enumerated selectors (document, all 40 intervals, both directions) drive Document.to_transposed on pool documents of the claimed core (single notes without explicit accidentals, with signifiers, dotted/grace durations, rests, barlines, interpretations, field comments, split/join, non-kern spines); the transposed export is compared cell by cell with the cell model whose pitches are moved by the independent letter/semitone model of C09 (exceptions allowed only where a result is unspellable), the round trip back restores the source export, a repeated call on a fresh import agrees; the three classes the property tracks (explicit accidentals, chord notes, state of the source document) are separate obligations whose failures are open known findings; invalid interval names / directions must raise ValueError.',
    note=NOTE + 'Three open known findings (source document rewritten through the shallow clone; accidentals; chords), as the property itself anticipates. The arithmetic for all octaves is C09.a (SMT).',
    technique='CrossHair-engine exhaustive enumeration (z3-decided selectors) of to_transposed over documents x 40 intervals x 2 directions against the cell model + letter/semitone pitch model, composed with the C09 SMT lemma',
    design='5 C15')

CLAIMED['C13'] = dict(
    text=BMC + 'C13: (a) Exporter.export_string is executed with SYMBOLIC spine-id bits (or None), spine-type bits and category bits at once under each of the six encodings, on documents with three spines, a chord, a split with a clef change and a join; the export must equal the cell model rendered under (encoding, category predicate, column predicate) - the three single-option transformations act on independent components of that state, so their composition is order independent by construction; (b) every keyword passed as None or as its documented default equals omitting it, alone and next to one other non-default option, in both call orders; (c) the text exported for a cell is independent of its neighbours for every encoding and four exclusions; (e) the public keyword route kp.dumps(spine_ids, spine_types, include, exclude, encoding) for 12 id selections (empty, unordered, tuple, None) x 9 type selections x 8 category selections x 6 encodings against the same cell model; the pool document holds an invisible barline.',
    note=NOTE + 'In C13.a six categories vary and the rest are selected (all 2^37 selections per document are C05.a); from/to_measure combinations are C07/C08.',
    technique='CrossHair-engine symbolic execution of the exporter with symbolic spine-id / spine-type / category containers x z3-enumerated encodings against a state-based cell model',
    design='5 C13')

CLAIMED['C14'] = dict(
    text=BMC + 'C14, by induction: (a) frame lemma - each of 90 instances of 30 read-only operation kinds (dumps with every keyword incl. the shared BEKERN_CATEGORIES set and calls that raise, token / unique / encoding / frequency / metacomment queries, spine_types, is_monophonic, iteration, measures_count, graph export to a file, clone) leaves a deep structural snapshot of the Document, of the module-level tables/defaults and of its argument containers unchanged and returns what a freshly imported copy returns; (a2) the same for dumps with UNBOUNDED symbolic integer from_measure/to_measure (39 paths cover all of Z x Z on 3 documents, including the ranges that raise); (b) all ordered pairs of operation instances as two-step histories; (c) two imports of the same text are indistinguishable by snapshot and by every operation (graph output modulo node ids).',
    note=NOTE + 'Histories longer than two calls follow from the frame lemma (state unchanged => every later call sees an imported state), they are not enumerated to length 12. to_transposed is C15.',
    technique='inductive frame lemma decided by CrossHair-engine symbolic execution (symbolic integer ranges) and z3-enumerated operation instances/pairs with deep structural snapshots',
    design='5 C14')

CLAIMED['C08'] = dict(
    text=BMC + 'C08: from_measure/to_measure are symbolic integers (assumed 1 <= a <= b <= M) over solver-enumerated score shapes of the claimed core (2-4 measures, four signature sets with per-spine clefs / key / meter / meter symbol, 1-2 kern spines, optional text spine filtered out, split + join and NESTED split with stepwise join inside a measure, spine content notes / chords only / rests, final barline); every excerpt must be accepted by the reference spine-path model (header line first, cell counts consistent with the operators, every spine terminated), re-import without errors, and every note / chord / rest of the re-imported excerpt must be governed (last_signature_nodes) by the same clef, key and time signature as in the full score and as the text-level model says. The three classes the property tracks (mid-score signature change - holds on this tree; excerpt starting inside an open split; non-kern spines in the excerpt) are separate obligations with open known findings.',
    note=NOTE + 'Two open known findings (excerpt starting inside a split; non-kern spines kept in the excerpt), as anticipated by the property.',
    technique='CrossHair-engine symbolic execution of the from_measure reconstruction block of export_string with symbolic measure range over z3-enumerated shapes; spine-path model as well-formedness validator; text-level signature model',
    design='5 C08')

CLAIMED['C20'] = dict(
    text=BMC + 'C20 (partial, as designed): (a) get_kern_from_ekern is executed on SYMBOLIC text (with and without a pinned **ekern header line) against a character-loop specification; (b-e) file and command-line behaviour is realised at the I/O boundary on real temporary files, with solver-enumerated selectors: load(file) vs loads(text) by deep structural snapshot for LF / CRLF, with / without final newline, non-ASCII cells, str and Path; multi-byte characters lying across byte offsets 512 .. 65536 (read-buffer boundaries); dump vs dumps for 5 option sets and 0-3 missing directory levels; the command line (python -m kernpy, a fresh interpreter per invocation) for --kern2ekern (single file, explicit output, directory, recursive, plus three kp.kern_to_ekern calls in one interpreter; .krn / .kern; every order of three scores with 1 / 3 / 2 kern spines) and --ekern2kern (.ekrn / .ekern, recursive or not) compared with what the API produces, plus the ekern -> kern -> ekern round trip.',
    note=NOTE + 'open()/csv on arbitrary bytes, locale-dependent default encodings, process spawning and permissions are out of reach of symbolic execution and outside the claim; the file tier is an enumeration of realised cases, labelled so.',
    technique='CrossHair-engine symbolic execution of get_kern_from_ekern on symbolic strings + z3-enumerated file / command-line scenarios realised at the I/O boundary and compared with the in-memory API',
    design='5 C20')

# ---- additions of the second build session (appended to the claim texts; DESIGN.md section 9.7)
_MORE = {
    'C01': ' (f) the document fixed point on long scores (300 / 1200 data rows, thorough 4000).',
    'C02': ' Every layout is imported under four blank-line plans (one stage per NON-EMPTY line).',
    'C03': ' (g) grid and cell content of long scores against the cell model; (h) histories: a new interpreter whose first call is a filtered / ranged / agnostic export, a query or another document, then the default export.',
    'C04': ' (f) the kern / ekern / bkern / bekern views after each of ten first calls of a new interpreter.',
    'C05': ' Two documents hold the same text under different categories in one document; (b) also re-uses the caller\'s own list / set after changing it in place between two calls; (d) filtered exports after each of ten first calls of a new interpreter.',
    'C06': ' Every layout carries local-comment rows; (d) spine selections after each of ten first calls of a new interpreter.',
    'C07': ' Shapes with global comments inside the score; (b) checks that options do not leak from one call into the next (plain export after ranged / rejected ones, half-open ranges); (c) scores of 80 / 320 (thorough 1000) measures: ranges at the start, in the middle and at the end, out-of-range pairs around them (enumerated window; the unbounded symbolic range is decided by C07.a).',
    'C11': ' (h) two-step histories from the first call of a new interpreter (a selection naming the category, a result set the caller empties) followed by eight query kinds on the category, its parent and its children. E2 now also translates set methods (isdisjoint, issubset, union ...), any()/all() over sets and module-level constants.',
    'C12': ' The pools contain characters that only the lexer can reject (outside the kern alphabet; treated as malformed whatever the current parser says) and the same malformed text in several cells of one line.',
    'C13': ' (d) combined options after each of ten first calls of a new interpreter.',
    'C14': ' The operation list also holds loops over the document that are left early (peek, break, exception, interleaved iterators); a long score (260 / 1200 data rows) goes through the frame lemma and the two-imports obligation.',
    'C15': ' (d) long scores (300 / 1200 data rows, thorough 4000): every note transposed, nothing else changed, round trip.',
    'C16': ' (d) histories on one letter: two spellings of the same letter (any alterations, octaves -1, 0, 1, 4, 9; thorough -3..12) through fresh codec objects, then the first again.',
    'C17': ' (e) listing order, encodings, unique listing, frequencies and comments of long scores; (b) also on a document with invisible barlines.',
    'C18': ' (d) includes cells that a Unicode clean-up would change (not NFC, full-width, case-sensitive) and checks their export.',
    'C19': ' Shapes whose pickup starts with a chord / rest / decorated note in every spine; whether a first fragment has a measure is decided by the text-level model.',
    'C20': ' (b) also loads the same file again after the first result was modified, and after the file was replaced by other content of the same size and time stamp; the command-line scores contain durationless grace notes (extended form with a decoration separator but no token separator).',
}
for _k, _v in _MORE.items():
    CLAIMED[_k]['text'] += _v
for _k in CLAIMED:
    CLAIMED[_k]['note'] += ' A counterexample that only fails after the calls made earlier in the same interpreter is replayed together with that history (recorded in the replay file).'

PENDING_REASON = 'check under construction in this session (to be claimed; see DESIGN.md section 5)'
