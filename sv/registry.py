"""Which properties are claimed, with what wording.  tools/gen_manifest.py turns this into MANIFEST.json."""

BMC = ('Bounded model checking by symbolic execution of the real kernpy code (CrossHair engine, every branch decided by z3): '
       'the property is asserted over symbolic inputs and the path tree is explored to exhaustion inside the stated bounds; '
       'every path representative is re-run natively against /repo and every counterexample is replayed in a fresh process before it is reported. ')
NOTE = ('Trusted: CPython 3.12, CrossHair 0.0.110 engine and proxies (each path cross-checked by native re-execution of a representative), z3 5.1, '
        'the reference oracles under /verif/sv/ref. Claim holds only inside the bounds printed in the evidence; ANTLR only ever receives concrete text. ')

CLAIMED = {
    'C16': dict(
        text=BMC + 'C16: letter, alteration and octave are symbolic integers; import->export->export and directly built pitch objects; all 7x7x11 spellings decided (quick), octaves -3..12 thorough.',
        note=NOTE + 'Octaves outside the bound and the American codec are outside the claim.',
        technique='symbolic execution (CrossHair engine + z3), exhaustive path exploration over symbolic letter/alteration/octave, native replay',
        design='5 C16'),
}

PENDING_REASON = 'check under construction in this session (to be claimed; see DESIGN.md section 5)'
