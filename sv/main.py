"""Orchestrator: ./run.sh <ID> [quick|thorough]  |  ./run.sh --replay <file>

Decides one property of /verif/properties.jsonl on /repo's current working tree:
  set-up (alphabets etc. derived from the current parser) -> known findings ->
  vacuity witnesses -> one worker process per (obligation, shard) -> merge ->
  native replay of every counterexample in a fresh process -> evidence -> exit code.
Exit 0: nothing refuted.  Exit 1: VIOLATION (natively reproduced).  Exit 2: HARNESS-ERROR.
"""
from __future__ import annotations

import importlib
import json
import os
import shutil
import subprocess
import sys
import time

ROOT = os.path.dirname(os.path.dirname(os.path.abspath(__file__)))
REPLAYS = os.environ.get('VERIF_REPLAY_DIR') or os.path.join(ROOT, 'replays')      # development runs may redirect
NPROC = int(os.environ.get('VERIF_NPROC', str(min(16, os.cpu_count() or 4))))


def _load_mod(prop):
    return importlib.import_module(f'sv.props.{prop.lower()}')


def _findings(prop):
    p = os.path.join(ROOT, 'known_findings.json')
    if not os.path.exists(p):
        return []
    with open(p) as f:
        return [e for e in json.load(f)['findings'] if e['property'] == prop]


def _prepare(prop, tier):
    """Common to check and replay: context, set-up data, active known findings."""
    from sv.engine import ctx
    ctx.TIER = tier
    ctx.SEED = int(os.environ.get('VERIF_SEED', '0') or 0)
    mod = _load_mod(prop)
    data = mod.setup(tier) if hasattr(mod, 'setup') else {}
    ctx.DATA = data
    if hasattr(mod, 'load'):
        mod.load(tier)
    return mod, data


def replay(path):
    from sv.engine import ctx
    with open(path) as f:
        r = json.load(f)
    prop, tier = r['property'], r.get('tier', 'quick')
    mod, _ = _prepare(prop, tier)
    ctx.KF_ACTIVE = set(r.get('kf_active', []))
    from sv.engine.xh import run_native
    ob = next(o for o in mod.OBLIGATIONS if o.id == r['obligation'])
    if r.get('needs_history'):
        # the failure depends on what the same interpreter did before: re-run the recorded earlier calls (same obligation, the
        # arguments of the paths explored before this one in its worker process), outcomes ignored, then the failing call
        for h in r.get('history') or []:
            run_native(ob.fn, h)
        print(f"replay with history: {len(r.get('history') or [])} earlier calls of the same obligation re-run first")
    verdict, msg = run_native(ob.fn, r['args'])
    print(f"replay property={prop} obligation={ob.id} args={json.dumps(r['args'], ensure_ascii=False)}")
    if ob.describe:
        try:
            print('denotes:', json.dumps(ob.describe(**r['args']), ensure_ascii=False))
        except Exception as e:  # description is best effort
            print('denotes: <unavailable>', e)
    if verdict is False:
        print(f'REPRODUCED: {msg}')
        return 1
    print(f'NOT REPRODUCED (native verdict {verdict}: {msg})')
    return 0


def run_pool(jobs, workdir):
    """jobs: list of (argv, timeout_s, outfile). Runs at most NPROC at a time."""
    pending = list(jobs)
    running = []
    env = dict(os.environ)
    env['PYTHONPATH'] = ROOT + (':' + env['PYTHONPATH'] if env.get('PYTHONPATH') else '')
    results = {}
    while pending or running:
        while pending and len(running) < NPROC:
            argv, to, out = pending.pop(0)
            log = open(out + '.log', 'w')
            p = subprocess.Popen([sys.executable, '-m', 'sv.engine.worker'] + argv, cwd=ROOT, env=env,
                                 stdout=log, stderr=subprocess.STDOUT)
            running.append((p, time.monotonic() + to, out, log, argv))
        time.sleep(0.05)
        for item in list(running):
            p, dl, out, log, argv = item
            rc = p.poll()
            if rc is None and time.monotonic() > dl:
                p.kill()
                p.wait()
                rc = -9
            if rc is not None:
                running.remove(item)
                log.close()
                if os.path.exists(out):
                    with open(out) as f:
                        results[out] = json.load(f)
                else:
                    tail = ''
                    try:
                        with open(out + '.log') as f:
                            tail = f.read()[-1500:]
                    except OSError:
                        pass
                    results[out] = {'ok': False, 'error': f'worker exit {rc} without result (timeout or crash)\n{tail}',
                                    'killed': rc == -9, 'ob': argv[1], 'shard': int(argv[2]), 'twin': len(argv) > 6}
    return results


def main(argv):
    if not argv:
        print(__doc__)
        return 2
    if argv[0] == '--replay':
        return replay(argv[1])
    prop = argv[0].upper()
    tier = os.environ.get('VERIF_TIER') or (argv[1] if len(argv) > 1 else 'quick')
    if tier not in ('quick', 'thorough'):
        tier = 'quick'
    seed = int(os.environ.get('VERIF_SEED', '0') or 0)
    t0 = time.monotonic()
    from sv.engine import ctx
    from sv.engine.xh import run_native
    from sv.engine import shims
    harness_errors = []
    try:
        mod, data = _prepare(prop, tier)
    except Exception as e:
        import traceback
        traceback.print_exc()
        print(f'HARNESS-ERROR property={prop} set-up failed: {e!r}')
        return 2
    obs = [o for o in mod.OBLIGATIONS if tier in o.tiers]
    only = os.environ.get('VERIF_ONLY')
    if only:
        obs = [o for o in obs if o.id in only.split(',')]

    # ---- known findings: an open finding excludes its region only while its witness still fails
    kf_active, kf_lines, kf_notes = set(), [], []
    ctx.KF_ACTIVE = set()
    for e in _findings(prop):
        if not e['status'].startswith('open'):
            continue
        ob = next((o for o in mod.OBLIGATIONS if o.id == e['obligation']), None)
        if ob is None or ob.fn is None:
            harness_errors.append(f"known finding {e['id']} names unknown obligation {e['obligation']}")
            continue
        verdict, msg = run_native(ob.fn, e['witness'])
        if verdict is False:
            kf_active.add(e['id'])
            kf_lines.append(f"KNOWN-FINDING: property={prop} {e['id']} {e['what']}")
        else:
            kf_notes.append(f"{e['id']}: witness no longer fails (verdict {verdict}); region NOT excluded")
    ctx.KF_ACTIVE = kf_active
    for ln in kf_lines:
        print(ln, flush=True)

    witness_cex = []
    # ---- vacuity guard, part 1: declared witness points satisfy all assumptions and pass natively
    for ob in obs:
        if ob.fn is None:
            continue
        import inspect as _inspect
        params = set(_inspect.signature(ob.fn).parameters)
        for w in ob.witnesses:
            if not set(w) <= params:
                harness_errors.append(f'{ob.id}: witness point {w} does not match the obligation\'s parameters {sorted(params)}')
                continue
            verdict, msg = run_native(ob.fn, w)
            if verdict is False:
                # a declared in-bound point that fails natively is a counterexample like any other
                witness_cex.append({'obligation': ob.id, 'args': w, 'message': msg, 'traced': 'witness point (native)'})
            elif verdict is None and not ob.stub_optional:
                harness_errors.append(f'{ob.id}: witness point {w} does not satisfy the obligation\'s assumptions (vacuity guard)')

    workdir = os.path.join(ROOT, '.work', f'{prop}.{tier}.{os.getpid()}')
    os.makedirs(workdir, exist_ok=True)
    with open(os.path.join(workdir, 'ctx.json'), 'w') as f:
        json.dump({'data': data, 'kf_active': sorted(kf_active)}, f)
    jobs = []
    for ob in obs:
        n = ob.shards.get(tier, 1)
        budget = float(os.environ.get('VERIF_BUDGET_S', ob.budget_s.get(tier, 90)))
        for k in range(n):
            out = os.path.join(workdir, f'{ob.id}.{k}.json')
            jobs.append(([prop, ob.id, str(k), str(n), tier, workdir], budget + 180, out))
        if ob.engine == 'E1':
            out = os.path.join(workdir, f'{ob.id}.0.twin.json')
            jobs.append(([prop, ob.id, '0', '1', tier, workdir, 'twin'], 200, out))
    # longest budgets first
    jobs.sort(key=lambda j: -j[1])
    results = run_pool(jobs, workdir) if not harness_errors else {}

    # ---- merge
    ob_reports, all_cex, inconclusive = [], list(witness_cex), []
    suspects = []
    tot = dict(paths=0, confirmed=0, ignored=0, unknown=0, refuted=0, native_ok=0, solver_queries=0,
               solver_s=0.0, distinct=0, e2_queries=0)
    functions = set()
    samples = []
    for ob in obs:
        shards = [r for r in results.values() if r.get('ob') == ob.id and not r.get('twin')]
        twin = [r for r in results.values() if r.get('ob') == ob.id and r.get('twin')]
        rep = {'id': ob.id, 'title': ob.title, 'engine': ob.engine, 'symbolic': ob.symbolic,
               'solver_enumerated': ob.enumerated, 'bounds': ob.bounds.get(tier, ob.bounds.get('quick', '')),
               'shards': len(shards)}
        for r in shards + twin:
            if not r.get('ok'):
                if r.get('killed'):
                    rep.setdefault('killed_shards', []).append(r.get('shard'))
                else:
                    harness_errors.append(f"{ob.id} shard {r.get('shard')}{' twin' if r.get('twin') else ''}: worker failed: {r.get('error', '')[-800:]}")
        good = [r for r in shards if r.get('ok')]
        if ob.engine == 'E1':
            for key in ('paths', 'confirmed', 'ignored', 'unknown', 'refuted', 'native_ok', 'solver_queries'):
                rep[key] = sum(r.get(key, 0) for r in good)
                tot[key] += rep[key]
            rep['solver_s'] = round(sum(r.get('solver_s', 0) for r in good), 2)
            tot['solver_s'] += rep['solver_s']
            rep['distinct_representatives'] = sum(r.get('distinct_reps', 0) for r in good)
            tot['distinct'] += rep['distinct_representatives']
            rep['exhausted_per_shard'] = [bool(r.get('exhausted')) for r in sorted(good, key=lambda r: r['shard'])]
            rep['unknown_reasons'] = {}
            for r in good:
                for k2, v in r.get('unknown_reasons', {}).items():
                    rep['unknown_reasons'][k2] = rep['unknown_reasons'].get(k2, 0) + v
            rep['discrepancies'] = [d for r in good for d in r.get('discrepancies', [])][:3]
            rep['decided'] = (len(good) == len(shards) and len(shards) > 0 and all(r.get('exhausted') for r in good)
                              and rep['unknown'] == 0)
            rep['wall_s'] = max([r.get('wall_s', 0) for r in good] or [0])
            reached = any(r.get('ok') and r.get('twin_reached') for r in twin)
            rep['reachability_twin'] = 'refuted (assertion reachable)' if reached else 'NOT REACHED'
            if twin and not reached and not any(not r.get('ok') for r in twin) and not ob.stub_optional:
                harness_errors.append(f'{ob.id}: reachability twin never reached the final assertion (vacuous obligation?)')
            if ob.stub_optional and rep['confirmed'] == 0 and not any(r.get('cex') for r in good):
                rep['decided'] = False
                rep['stub_contract'] = 'no path reached the assertion through the stub: the stubbed interface is no longer the one kernpy uses; obligation not applicable to this tree'
            elif (rep['confirmed'] < ob.min_confirmed and not any(r.get('cex') for r in good) and len(good) == len(shards)
                    and all(r.get('exhausted') for r in good)      # a budget end is INCONCLUSIVE (reported as such), not a vacuous pass
                    and not any(c['obligation'] == ob.id for c in witness_cex)):
                harness_errors.append(f"{ob.id}: only {rep['confirmed']} confirmed paths, expected >= {ob.min_confirmed} (vacuity guard)")
            for r in good:
                functions.update(r.get('functions', []))
                for s in r.get('samples', [])[:2]:
                    d = {'obligation': ob.id, 'args': s}
                    if ob.describe:
                        try:
                            d['denotes'] = ob.describe(**s)
                        except Exception:
                            pass
                    if len(samples) < 24:
                        samples.append(d)
        else:
            for r in good:
                for key in ('queries', 'unsat', 'sat', 'unknown'):
                    rep[key] = rep.get(key, 0) + r.get(key, 0)
                rep['solver_s'] = round(rep.get('solver_s', 0) + r.get('solver_s', 0), 2)
                rep['validated_points'] = rep.get('validated_points', 0) + r.get('validated_points', 0)
                rep['functions_translated'] = r.get('functions', [])
                rep['tables'] = r.get('tables', [])
                rep['cross_solver'] = r.get('cross_solver', '')
                rep['notes'] = r.get('notes', '')
                functions.update(r.get('functions', []))
                for s in r.get('samples', [])[:3]:
                    if len(samples) < 24:
                        samples.append({'obligation': ob.id, 'query': s})
                if r.get('harness_error'):
                    harness_errors.append(f"{ob.id}: {r['harness_error']}")
            tot['e2_queries'] += rep.get('queries', 0)
            tot['solver_s'] += rep.get('solver_s', 0)
            tot['native_ok'] += rep.get('validated_points', 0)
            tot['unknown'] += rep.get('unknown', 0)
            rep['decided'] = bool(good) and rep.get('unknown', 0) == 0 and all(r.get('decided', True) for r in good)
            rep['wall_s'] = max([r.get('wall_s', r.get('proc_wall_s', 0)) for r in good] or [0])
        cex = [dict(c, obligation=ob.id) for r in good for c in r.get('cex', [])]
        suspects += [dict(c, obligation=ob.id, suspect=True) for r in good for c in r.get('suspects', [])]
        rep['refuted'] = len(cex) if ob.engine != 'E1' else rep.get('refuted', 0)
        all_cex += cex
        if not rep['decided'] and not cex:
            inconclusive.append(rep)
        ob_reports.append(rep)

    # ---- replay every counterexample in a fresh native process
    violations = []
    os.makedirs(REPLAYS, exist_ok=True)
    seen = set()
    per_ob = {}
    for old in os.listdir(REPLAYS):
        if old.startswith(prop + '_') and old.endswith('.json'):
            os.remove(os.path.join(REPLAYS, old))
    for i, c in enumerate(all_cex + suspects):
        key = (c['obligation'], json.dumps(c['args'], sort_keys=True))
        if key in seen or per_ob.get(c['obligation'], 0) >= 2:
            continue   # at most two replayed counterexamples per obligation; the rest are counted in the evidence
        seen.add(key)
        per_ob[c['obligation']] = per_ob.get(c['obligation'], 0) + 1
        path = os.path.join(REPLAYS, f"{prop}_{c['obligation']}_{len(seen)}.json")
        ob = next(o for o in obs if o.id == c['obligation'])
        rec = {'property': prop, 'obligation': c['obligation'], 'tier': tier, 'args': c['args'],
               'message': c.get('message', ''), 'traced_verdict': c.get('traced', ''), 'kf_active': sorted(kf_active),
               'needs_history': False, 'history': c.get('history') or []}
        if ob.describe and ob.fn is not None:
            try:
                rec['denotes'] = ob.describe(**c['args'])
            except Exception:
                pass
        with open(path, 'w') as f:
            json.dump(rec, f, indent=1, ensure_ascii=False)
        env = dict(os.environ)
        env['PYTHONPATH'] = ROOT + (':' + env['PYTHONPATH'] if env.get('PYTHONPATH') else '')
        p = subprocess.run([sys.executable, '-m', 'sv.main', '--replay', path], cwd=ROOT, env=env,
                           capture_output=True, text=True, timeout=600)
        if p.returncode != 1 and rec['history']:
            # not reproducible on its own: a failure that needs the calls made earlier in the same interpreter (state leaking
            # between calls) reproduces when those calls are re-run first, in a fresh process, natively
            rec['needs_history'] = True
            with open(path, 'w') as f:
                json.dump(rec, f, indent=1, ensure_ascii=False)
            p = subprocess.run([sys.executable, '-m', 'sv.main', '--replay', path], cwd=ROOT, env=env,
                               capture_output=True, text=True, timeout=1800)
            if p.returncode == 1:
                rec['message'] = '[after %d earlier calls of the same obligation in one interpreter] ' % len(rec['history']) + rec['message']
        if p.returncode == 1:
            violations.append((path, rec))
        elif c.get('suspect'):
            os.remove(path)        # a traced-only failure that does not reproduce in a fresh process either: stays an inconclusive path
        else:
            harness_errors.append(f"counterexample of {c['obligation']} did not reproduce in a fresh native process: "
                                  f"{json.dumps(c['args'], ensure_ascii=False)[:300]} :: {p.stdout[-300:]} {p.stderr[-300:]}")
            os.remove(path)

    wall = round(time.monotonic() - t0, 2)
    decided_all = all(r['decided'] for r in ob_reports) and not harness_errors and bool(ob_reports)
    for r in inconclusive:
        print(f"INCONCLUSIVE obligation={r['id']} paths={r.get('paths', r.get('queries', 0))} "
              f"unknown={r.get('unknown', 0)} exhausted={r.get('exhausted_per_shard', '')}", flush=True)

    # ---- evidence
    meta = getattr(mod, 'META', {})
    states = tot['paths'] + tot['e2_queries']
    ev = {
        'property_id': prop, 'tier': tier, 'seed': seed, 'level': 'model_checking',
        'coverage': {
            'states': max(states, 0),
            'transitions': tot['solver_queries'] + tot['e2_queries'],
            'traces_validated_against_impl': tot['native_ok'],
            'evaluations': states,
            'distinct_nontrivial': tot['distinct'] + sum(r.get('unsat', 0) for r in ob_reports if r['engine'] != 'E1'),
            'rule': ('E1: one case = one feasible execution path of the obligation (real kernpy code on symbolic arguments); '
                     'counted as distinct+non-trivial only if the path reached the final assertion (CONFIRMED), its '
                     'representative (a z3 model of the arguments) is new, and the native re-run of that representative '
                     'through kernpy also passed. Paths pruned by assume() and unknown paths are not counted. '
                     'E2: one case = one SMT query answered unsat on the translated kernel.'),
            'samples': samples or [{'note': 'no path completed'}],
            'exhaustive': bool(decided_all),
            'exhaustive_meaning': 'every obligation exhausted its path tree (every shard) with zero unknown paths inside the stated bounds; says nothing outside the bounds',
            'obligations': len(ob_reports),
            'discharged': sum(1 for r in ob_reports if r['decided'] and not r.get('refuted')),
            'obligation_reports': ob_reports,
            'functions_encoded': sorted(functions),
            'functions_encoded_how': 'measured: kernpy code objects entered during native re-runs of path representatives (sys.setprofile, first paths of each shard); E2: functions whose source was translated',
            'solver_queries': tot['solver_queries'] + tot['e2_queries'],
            'solver_time_s': round(tot['solver_s'], 2),
            'paths': {k: tot[k] for k in ('paths', 'confirmed', 'ignored', 'unknown', 'refuted')},
            'shims': list(shims.SHIMS) + (['opaque number formatting in error messages (tripwire-guarded)']
                                           if any(o.opaque_numbers for o in obs) else []),
            'stubs': sorted({s for o in obs for s in o.stubs}),
            'realized_at': sorted({s for o in obs for s in o.realized_at}),
            'alphabets': data.get('alphabet_sizes', {}) if isinstance(data, dict) else {},
            'known_findings_seen': sorted(kf_active),
            'known_findings_notes': kf_notes,
            'outside_the_claim': meta.get('outside', []),
            'engine': 'CrossHair 0.0.110 engine with own driver (z3 %s)' % _z3v(),
            'harness_errors': harness_errors,
        },
        'assumptions': sorted({a for o in obs for a in o.assumptions}) + meta.get('assumptions', []),
        'wall_s': wall,
        'violations': len(violations),
    }
    # development runs against seeded changes (tools/adopt_mutant.py) must not overwrite the committed evidence
    evdir = os.environ.get('VERIF_EVIDENCE_DIR') or os.path.join(ROOT, 'evidence')
    os.makedirs(evdir, exist_ok=True)
    with open(os.path.join(evdir, f'{prop}.json'), 'w') as f:
        json.dump(ev, f, indent=1, ensure_ascii=False)
    if not os.environ.get('VERIF_KEEP_WORK'):
        shutil.rmtree(workdir, ignore_errors=True)

    print(f"property={prop} tier={tier} obligations={len(ob_reports)} decided={sum(1 for r in ob_reports if r['decided'])} "
          f"paths={tot['paths']} confirmed={tot['confirmed']} e2_queries={tot['e2_queries']} "
          f"solver_queries={tot['solver_queries']} wall={wall}s", flush=True)
    for path, rec in violations:
        print(f"  counterexample obligation={rec['obligation']} args={json.dumps(rec['args'], ensure_ascii=False)[:400]} :: {rec['message'][:400]}")
        print(f'VIOLATION property={prop} replay={path}', flush=True)
    if violations:
        return 1
    if harness_errors:
        for h in harness_errors:
            print(f'HARNESS-ERROR property={prop} {h}', flush=True)
        return 2
    return 0


def _z3v():
    import z3
    return z3.get_version_string()


if __name__ == '__main__':
    sys.exit(main(sys.argv[1:]))
