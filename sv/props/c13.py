"""C13  Export options act independently of one another.

Anchors: Generic.parse_options_to_ExportOptions, ExportOptions.default; Exporter.append_row ->
export_token -> TokenizerFactory.create(...).tokenize (spine gate, category gate, tokenizer);
null-row suppression in Exporter.export_string.
The oracle renders every cell from its abstract description under (encoding, category predicate,
column predicate): the three single-option transformations act on independent components of that
state, so their composition is the same in any order by construction; kernpy's combined export
must equal it.
"""
from sv.engine import ctx
from sv.engine.ob import Ob
from sv.engine.xh import assume, check, choose, concrete, native
from sv.ref import cells, docs
from sv.ref import pitch as rp
from sv.ref import spinepath as sp
from sv.ref.cells import FieldComment, Bar, Chord, Doc, Header as H, Note, Null, Op, Rest
from sv.ref.docs import sig, lyr, dyn

import kernpy as kp
from kernpy.core import gkern as gk
from kernpy.core.exporter import Exporter, ExportOptions
from kernpy.core.tokens import TokenCategory as TC, HEADERS

ENC = (kp.Encoding.normalizedKern, kp.Encoding.eKern, kp.Encoding.bKern, kp.Encoding.bEkern, kp.Encoding.agnosticKern, kp.Encoding.agnosticExtendedKern)
ENC_NAMES = ('kern', 'ekern', 'bkern', 'bekern', 'akern', 'aekern')
N = len(list(TC))
NAMES = [c.name for c in TC]
T = '*-'
FREE = ('DURATION', 'PITCH', 'DECORATION', 'BARLINES', 'LYRICS', 'CLEF')     # categories left symbolic in C13.a (the rest selected)

META = {
    'outside': ['documents outside the pool; in C13.a only six categories vary (all 2^37 selections per document: C05.a)',
                'from_measure / to_measure in combination with the other options (C07, C08)'],
    'assumptions': [],
}


def _docs():
    D = []
    D.append(Doc([[H('**kern'), H('**text'), H('**kern')], [sig('*clefG2', 'CLEF'), Null('*'), sig('*clefF4', 'CLEF')],
                  [Bar(number='1'), Bar(number='1'), Bar(number='1')],
                  [Note('4', pitch='c', acc='#', decs=((3, 'L'),)), lyr('la'), Note('2', dots=1, pitch='GG')],
                  [Chord((Note('8', pitch='e'), Note('8', pitch='g', acc='-', decs=((3, 'J'),)))), Null('.'), Rest('4', decs=((3, ';'),))],
                  [Null('.'), lyr('li'), Null('.')],
                  # an invisible barline: written as a null line under every option set (KF-C03-hidden-barline), also under the defaults
                  [Bar(number='2', hidden=True), Bar(number='2', hidden=True), Bar(number='2', hidden=True)],
                  [Note('4', pitch='d'), lyr('lu'), Note('4', pitch='AA')],
                  # local comments confined to one spine ('!' is the empty local comment: a cell like any other, not a null token)
                  [FieldComment('!x'), FieldComment('!'), FieldComment('!')], [FieldComment('!'), FieldComment('!'), FieldComment('!z')],
                  [Bar(double=True), Bar(double=True), Bar(double=True)], [Op(T), Op(T), Op(T)]]))
    D.append(Doc([[H('**dynam'), H('**kern')], [Null('*'), sig('*clefC3', 'CLEF')], [dyn('f'), Note('16', mark='q', pitch='b', acc='-')],
                  [Null('*'), Op('*^')], [dyn('p'), Note('4', pitch='a', decs=((0, '('),)), Note('4', pitch='F')],
                  [Null('*'), sig('*clefG2', 'CLEF'), Null('*')], [Null('.'), Note('4', pitch='cc', decs=((3, ')'),)), Note('4', pitch='E')],
                  [Null('*'), Op('*v'), Op('*v')], [dyn('mf'), Note('1', pitch='d')], [Op(T), Op(T)]]))
    return D


DOCS = []
_CACHE = {}


def load(tier):
    global DOCS
    DOCS = _docs()


class CatSet:
    def __init__(self, bits):
        self.bits = bits          # dict name -> bool (symbolic) for FREE, everything else selected

    def __contains__(self, c):
        return self.bits.get(c.name, True)

    def has(self, name):
        return self.bits.get(name, True)

    def names(self):
        return [n for n in NAMES if self.bits.get(n, True)]


class BVSet:
    def __init__(self, universe, bits):
        self.universe, self.bits = universe, bits

    def __contains__(self, x):
        for i, u in enumerate(self.universe):
            if u == x:
                return self.bits[i]
        return False

    def members(self):
        return [u for i, u in enumerate(self.universe) if self.bits[i]]


def _parse_pa(pa):
    letters = ''.join(ch for ch in pa if ch.isalpha() and ch.lower() in 'abcdefg')
    acc = pa[len(letters):]
    L = 'cdefgab'.index(letters[0].lower())
    octave = 3 + len(letters) if letters[0].islower() else 4 - len(letters)
    return L, acc, octave


@native
def get(i):
    if i not in _CACHE:
        D = DOCS[i]
        rows_text = [[c.source() for c in r] for r in D.rows]
        an = sp.analyse(rows_text)
        cellmap = {(c.row, c.col): c for r in an for c in r}
        doc, errs = kp.loads(D.text())

        def conv(r, j):
            k = (r, j)
            while k is not None and not cellmap[k].text.startswith('*clef'):
                k = cellmap[k].parent
            if k is None:
                return None
            bl = gk.ClefFactory.create_clef(cellmap[k].text).bottom_line()
            bL, _ = rp.name_parts(bl.name)

            def f(pa):
                L, acc, octave = _parse_pa(pa)
                d = rp.steps(L, octave) - rp.steps(bL, bl.octave)
                t = rp.steps(2, 4) + d
                return rp.humdrum(t % 7, 0, t // 7) + acc
            return f
        spine = {(c.row, c.col): c.spine for r in an for c in r}
        header = {(c.row, c.col): c.header for r in an for c in r}
        _CACHE[i] = (D, doc, list(errs), conv, spine, header)
    return _CACHE[i]


TYPES = ('**kern', '**text', '**dynam')


def ob_a(d: int, e: int, c0: bool, c1: bool, c2: bool, c3: bool, c4: bool, c5: bool, i0: bool, i1: bool, i2: bool, ids_none: bool,
         t0: bool, t1: bool, t2: bool) -> bool:
    """All three option families at once: the export equals the cell model under (encoding, categories, columns)."""
    assume(0 <= d < len(DOCS) and 0 <= e < 6)
    D, doc, errs, conv, spine, header = get(choose(d, len(DOCS)))
    ei = choose(e, 6)
    check(not errs, 'import errors')
    S = CatSet(dict(zip(FREE, (c0, c1, c2, c3, c4, c5))))
    ids = BVSet((0, 1, 2), (i0, i1, i2))
    types = BVSet(TYPES, (t0, t1, t2))
    if ids_none:
        assume(i0 and i1 and i2)
    assume(S.has('DURATION') or S.has('PITCH'))
    opts = ExportOptions(spine_types=types, token_categories=S, kern_type=ENC[ei], spine_ids=None if ids_none else ids)
    got = Exporter().export_string(doc, opts)
    agn = ei >= 4
    exp = D.expected(ENC_NAMES[ei], keep=S.has,
                     col_keep=lambda r, j: (header[(r, j)] in types) and (ids_none or spine[(r, j)] in ids),
                     to_agnostic=conv if agn else None)
    grid = cells.parse_grid(concrete(got))
    check(cells.rows_equal(grid, exp),
          lambda: f'{ENC_NAMES[ei]}, unselected categories {[n for n in FREE if not concrete(S.has(n))]}, spine_ids={"None" if ids_none else concrete(ids.members())}, '
                  f'spine_types={concrete(types.members())}: exported {grid}, composition of the three single-option transformations {concrete(exp)}')
    return True


# ------------------------------------------------------------------ C13.b explicit default == omitted
KEYWORDS = ('spine_types', 'include', 'exclude', 'from_measure', 'to_measure', 'encoding', 'instruments', 'show_measure_numbers', 'spine_ids')
OTHERS = ({}, {'encoding': kp.Encoding.eKern}, {'include': [TC.CORE, TC.STRUCTURAL]}, {'spine_ids': [0]}, {'spine_types': ['**kern']},
          {'exclude': {TC.DECORATION}}, {'encoding': kp.Encoding.agnosticKern}, {'exclude': {TC.COMMENTS, TC.NOTE}}, {'exclude': [TC.SIGNATURES]})


def _explicit_default(kw, doc, variant):
    """variant 1: None; 2..: documented defaults written out."""
    if variant == 1:
        return None
    ids = doc.get_spine_ids()
    table = {
        'spine_types': [sorted(HEADERS), list(HEADERS)],
        'include': [set(TC), list(TC)],
        'exclude': [set(), []],
        'encoding': [kp.Encoding.normalizedKern, kp.Encoding.normalizedKern],
        'show_measure_numbers': [False, False],
        'spine_ids': [list(ids), tuple(ids)],
        'from_measure': [None, None], 'to_measure': [None, None], 'instruments': [None, None],
    }
    return table[kw][variant - 2]


def ob_b(d: int, k: int, variant: int, other: int) -> bool:
    assume(0 <= d < len(DOCS) and 0 <= k < len(KEYWORDS) and 1 <= variant <= 3 and 0 <= other < len(OTHERS))
    return _b_body(choose(d, len(DOCS)), choose(k, len(KEYWORDS)), choose(variant - 1, 3) + 1, choose(other, len(OTHERS)))


@native
def _b_body(di, k, variant, oi):
    D, doc, errs, conv, spine, header = get(di)
    kw = KEYWORDS[k]
    base = dict(OTHERS[oi])
    if kw in base:
        return True               # the other option is the same keyword
    # priming: exports that select spines by id / type come first; the defaults of later calls must not have been narrowed by them
    kp.dumps(doc, spine_ids=[0])
    kp.dumps(doc, spine_types=['**kern'], encoding=kp.Encoding.bEkern)
    check(cells.parse_grid(kp.dumps(doc)) == D.expected('kern'), f'after exports with spine_ids / spine_types the default export is {cells.parse_grid(kp.dumps(doc))}, expected {D.expected("kern")}')
    ref = kp.dumps(doc, **base)
    val = _explicit_default(kw, doc, variant)
    got = kp.dumps(doc, **base, **{kw: val})
    check(got == ref, f'dumps(doc, {base}, {kw}={val!r}) differs from omitting {kw}: {got!r} vs {ref!r}')
    # and once more in the opposite order of calls (no call may leave anything behind)
    check(kp.dumps(doc, **base) == ref, f'omitting {kw} after passing it explicitly gives a different text')
    # the same option sets through ONE Exporter object (kp.Exporter is public): every export answers like a fresh one
    from kernpy.core.generic import Generic

    def opts(d):
        d = dict(d)
        if 'encoding' in d:
            d['kern_type'] = d.pop('encoding')
        return Generic.parse_options_to_ExportOptions(**d)
    e = Exporter()
    first = e.export_string(doc, opts({'include': [TC.HEADER]}))
    second = e.export_string(doc, opts(base))
    third = e.export_string(doc, opts({**base, kw: val}))
    check(second == ref and third == ref, f'one Exporter object used for include=[HEADER], then {base}, then {kw}={val!r}: {second!r} / {third!r}, fresh exports give {ref!r}')
    e2 = Exporter()
    e2.export_string(doc, opts({}))
    check(e2.export_string(doc, opts(base)) == ref, f'one Exporter object used for the default export and then {base} differs from a fresh export')
    return True


# ------------------------------------------------------------------ C13.c position independence of the per-cell pipeline
POOL = (Note('4', pitch='c', acc='#', decs=((3, 'L'),)), Rest('8', dots=1, decs=((3, ';'),)), Chord((Note('4', pitch='e'), Note('4', pitch='g', acc='-'))),
        Note('16', mark='q', pitch='BB', decs=((0, '('), (3, 'J'))), Note('2', pitch='dd', acc='n'), Null('.'))
SELECTIONS = (None, ('DECORATION',), ('DURATION', 'ALTERATION'), ('PITCH', 'REST', 'CHORD'))


def ob_c(a: int, b: int, pos: int, e: int, s: int) -> bool:
    n = len(POOL)
    assume(0 <= a < n and 0 <= b < n and 0 <= pos < 4 and 0 <= e < 6 and 0 <= s < len(SELECTIONS))
    return _c_body(choose(a, n), choose(b, n), choose(pos, 4), choose(e, 6), choose(s, len(SELECTIONS)))


@native
def _c_body(a, b, pos, e, s):
    A, B = POOL[a], POOL[b]
    excluded = SELECTIONS[s] or ()
    # A sits in row 1 column 0; B goes to one of four other places
    grid = [[Note('4', pitch='f'), Note('4', pitch='a')], [A, Note('4', pitch='b')], [Note('4', pitch='g'), Note('4', pitch='cc')]]
    r, c = ((0, 0), (0, 1), (1, 1), (2, 0))[pos]
    grid[r][c] = B
    rows = [[H('**kern'), H('**kern')], [sig('*clefG2', 'CLEF'), sig('*clefG2', 'CLEF')]] + grid + [[Op(T), Op(T)]]
    D = Doc(rows)
    doc, errs = kp.loads(D.text())
    check(not errs, 'import errors')
    kw = {'exclude': [TC[x] for x in excluded]} if excluded else {}
    got = cells.parse_grid(kp.dumps(doc, encoding=ENC[e], **kw))

    def conv(rr, jj):
        def f(pa):
            L, acc, octave = _parse_pa(pa)
            return rp.humdrum(L, 0, octave) + acc          # G2: identity
        return f
    from sv.ref import cats as refcats
    tree = refcats.Model(refcats.documented()[0])
    drop = set()
    for x in excluded:
        drop.update(tree.closure(x))
    exp = D.expected(ENC_NAMES[e], keep=lambda nm: nm not in drop, to_agnostic=conv if e >= 4 else None)
    check(cells.rows_equal(got, exp), f'{ENC_NAMES[e]} exclude={excluded}: exported {got}, expected {exp} (cell {A.source()!r} with neighbour {B.source()!r} at {(r, c)})')
    return True


def _shard_a(d, e, *rest):
    return d + 2 * e


UNTRACE = [('kernpy.core.tokens', 'TokenCategoryHierarchyMapper.valid')]

# ------------------------------------------------------------------ C13.d first call of an interpreter, then the observed exports
FRESH_REQ = [{'combined': {'spine_ids': [0], 'exclude': ['DECORATION'], 'encoding': 'eKern', 'cols': [0]}, 'types + include': {'spine_types': ['**kern'], 'include': ['NOTE_REST', 'BARLINES', 'HEADER', 'SPINE_OPERATION'], 'encoding': 'bEkern', 'cols': [0]}}, {'combined': {'spine_ids': [0, 2], 'exclude': ['DURATION'], 'encoding': 'eKern', 'cols': [0, 2]}}]


def ob_d(pre: int, d: int) -> bool:
    from sv.ref import fresh
    assume(0 <= pre < len(fresh.PRELUDES) and 0 <= d < 2)
    return _d_body(choose(pre, len(fresh.PRELUDES)), choose(d, 2))


@native
def _d_body(pre, d):
    from sv.ref import fresh, docs as _docs
    P = _docs.pool()
    D, other = (P[0], P[1]) if d == 0 else (P[1], P[0])
    bad = fresh.mismatches(pre, D, other.text(), FRESH_REQ[d])
    check(not bad, '; '.join(bad)[:1500])
    return True


# ------------------------------------------------------------------ C13.e the public keyword route: every subset (also empty, unordered, tuple)
IDSETS = ([], [0], [1], [2], [0, 1], [0, 2], [1, 2], [0, 1, 2], [2, 0], [1, 0], (2, 1, 0), None)
TYPESETS = ([], ['**kern'], ['**text'], ['**dynam'], ['**kern', '**text'], ['**dynam', '**kern'], ['**text', '**dynam'], ['**dynam', '**text', '**kern'], None)
CATSELS = ({}, {'exclude': ['DECORATION']}, {'include': ['CORE', 'STRUCTURAL', 'SIGNATURES']}, {'exclude': ['COMMENTS', 'NOTE']},
           {'include': ['PITCH'], 'exclude': ['PITCH']}, {'include': ['NOTE_REST', 'HEADER'], 'exclude': ['NOTE_REST']}, {'include': []},
           {'include': ['CHORD', 'DURATION', 'PITCH', 'HEADER', 'SPINE_OPERATION']})


def ob_e(d: int, e: int, i: int, t: int, z: int) -> bool:
    assume(0 <= d < len(DOCS) and 0 <= e < 6 and 0 <= i < len(IDSETS) and 0 <= t < len(TYPESETS) and 0 <= z < len(CATSELS))
    return _e_body(choose(d, len(DOCS)), choose(e, 6), choose(i, len(IDSETS)), choose(t, len(TYPESETS)), choose(z, len(CATSELS)))


@native
def _e_body(di, e, i, t, z):
    """kp.dumps with all three option families given as the user writes them (lists in any order, tuples, empty selections, None):
    the export is the cell model under (encoding, closure(include) - closure(exclude), columns whose spine id and type are selected)."""
    from sv.ref import cats as refcats
    D, doc, errs, conv, spine, header = get(di)
    ids, types, sel = IDSETS[i], TYPESETS[t], CATSELS[z]
    tree = refcats.Model(refcats.documented()[0])
    inc = NAMES if 'include' not in sel else sorted({x for c in sel['include'] for x in tree.closure(c)})
    drop = {x for c in sel.get('exclude', ()) for x in tree.closure(c)}
    selected = set(inc) - drop
    if selected and not (('DURATION' in selected) or ('PITCH' in selected)):
        return True               # outside C04's restriction for the basic encodings
    kw = {}
    if ids is not None:
        kw['spine_ids'] = type(ids)(ids)
    if types is not None:
        kw['spine_types'] = list(types)
    for k2 in ('include', 'exclude'):
        if k2 in sel:
            kw[k2] = [TC[x] for x in sel[k2]]
    got = cells.parse_grid(kp.dumps(doc, encoding=ENC[e], **kw))
    exp = D.expected(ENC_NAMES[e], keep=lambda nm: nm in selected,
                     col_keep=lambda r, j: (types is None or header[(r, j)] in types) and (ids is None or spine[(r, j)] in ids),
                     to_agnostic=conv if e >= 4 else None)
    check(cells.rows_equal(got, exp), f'dumps(doc, encoding={ENC_NAMES[e]}, {kw}): exported {got}, composition of the three single-option transformations {exp}')
    return True


OBLIGATIONS = [
    Ob(id='C13.d', fn=ob_d, title='histories from the first call of a fresh interpreter: combined options still equal the composition of the single-option transformations',
       shard_of=lambda pre, d: pre, shards={'quick': 5, 'thorough': 5}, budget_s={'quick': 150, 'thorough': 600}, native_body=True,
       witnesses=[{'pre': 0, 'd': 0}], min_confirmed=15, enumerated='first call (10 kinds, incl. none), document (2)',
       realized_at=['fresh python interpreter per history (subprocess)'],
       bounds={'quick': '10 first calls x 2 pool documents (kern + text with chord / decorations / accidentals; kern + dynam + harm)', 'thorough': 'same'}),
    Ob(id='C13.a', fn=ob_a, title='spine ids x spine types x categories x encoding at once == composition of the single-option transformations',
       shard_of=_shard_a, shards={'quick': 12, 'thorough': 12}, budget_s={'quick': 170, 'thorough': 2400}, untrace=UNTRACE,
       witnesses=[{'d': 0, 'e': 1, 'c0': True, 'c1': True, 'c2': False, 'c3': True, 'c4': True, 'c5': True, 'i0': True, 'i1': False, 'i2': True, 'ids_none': False,
                   't0': True, 't1': True, 't2': False}], min_confirmed=500,
       symbolic='six category bits, three spine-id bits (or None), three spine-type bits', enumerated='document, encoding (6)',
       bounds={'quick': '2 documents (3 spines kern/text/kern with chord; dynam + kern with split, clef change and join) x 6 encodings x every combination of the symbolic bits',
               'thorough': 'same'}),
    Ob(id='C13.b', fn=ob_b, title='explicit default (None or the documented value) == omitted, alone and next to one other option, in both call orders',
       shard_of=lambda d, k, variant, other: k, shards={'quick': 9, 'thorough': 9}, budget_s={'quick': 120, 'thorough': 600},
       witnesses=[{'d': 0, 'k': 1, 'variant': 2, 'other': 1}], min_confirmed=200, enumerated='document, keyword (9), default spelling (3), other option (9)',
       bounds={'quick': '2 x 9 x 3 x 9', 'thorough': 'same'}),
    Ob(id='C13.e', fn=ob_e, title='public keywords: every subset of spine ids / types as written by a user (empty, unordered, tuple, None) x category selections x encodings == cell model',
       shard_of=lambda d, e, i, t, z: i + 12 * t, shards={'quick': 16, 'thorough': 16}, budget_s={'quick': 150, 'thorough': 900},
       witnesses=[{'d': 0, 'e': 1, 'i': 5, 't': 4, 'z': 1}, {'d': 1, 'e': 0, 'i': 0, 't': 8, 'z': 0}], min_confirmed=3000,
       enumerated='document (2), encoding (6), spine-id selection (12), spine-type selection (9), category selection (8)',
       bounds={'quick': '2 x 6 x 12 x 9 x 8 = 10 368 calls of kp.dumps', 'thorough': 'same'}),
    Ob(id='C13.c', fn=ob_c, title='the text exported for a cell does not depend on its neighbours (per encoding and selection)',
       shard_of=lambda a, b, pos, e, s: a + 6 * e, shards={'quick': 12, 'thorough': 12}, budget_s={'quick': 150, 'thorough': 900},
       witnesses=[{'a': 0, 'b': 2, 'pos': 1, 'e': 1, 's': 1}], min_confirmed=1500, enumerated='cell A, neighbour B (6 x 6), position of B (4), encoding (6), exclusion (4)',
       bounds={'quick': '6 x 6 x 4 x 6 x 4 = 3456', 'thorough': 'same'}),
]
