"""C12  Malformed tokens are isolated, reported once and preserved.

Anchors: KernSpineImporter.import_token (per-token parse, bail-out strategy, error listener),
ErrorListener, Importer.run (except -> ErrorToken appended to Importer.errors), ErrorToken.export.
"""
from sv.engine import ctx
from sv.engine.ob import Ob
from sv.engine.xh import assume, check, choose, concrete, native
from sv.ref import alphabets as al, stubs
from sv.ref.snap import _tok

import kernpy as kp
from kernpy.core import tokens as tk
from kernpy.core.importer import Importer

META = {
    'outside': ['the exported form of an EMPTY malformed cell (kernpy writes a null placeholder; an empty field is not representable in a Humdrum line)', 'histories longer than 3 (quick) / 4 (thorough) tokens on one spine importer; more than 8 damaged cells per document',
                'malformed text that starts with * ! or = in column 0 changing the line class (Humdrum syntax), cells containing TAB / newline'],
    'assumptions': [],
}

VALID = ('4c', '8.dd#L', '2r', '4c 4e', '=1', '*clefG2', '.', '16qqE-J')
# malformed kinds: unknown character (lexer error), wrong order (parser error), truncated token, valid token + garbage
# (the last three: characters that are not in the lexer's alphabet at all -- only the lexer reports them)
MALFORMED = ('4zz', '4c§', 'c4', '4', '#', '4c4', '*clef', '=x', '%%', '[[[', '4c 4', '4c §', '*M4/', '8.', '4rP', 'rMT', '4c\u20ac', '4\xa0c', '\xbf4c')

POOL = VALID + MALFORMED


@native
def _fresh_outcome(text):
    try:
        t = kp.KernSpineImporter().import_token(text)
        return ('ok', type(t).__name__, t.category.name, t.export(), _tok(t))
    except Exception:
        return ('raises',)


def setup(tier):
    # the malformed pool is classified by the CURRENT parser: members that it accepts are not "malformed" for this run
    out = {t: _fresh_outcome(t)[0] for t in POOL}
    return {'outcomes': out, 'tandem': al.classify_tandem(), 'alphabet_sizes': {'valid': sum(1 for t in VALID if out[t] == 'ok'), 'malformed_rejected': sum(1 for t in MALFORMED if out[t] == 'raises')}}


# ------------------------------------------------------------------ C12.a histories on one spine importer
def ob_a(h0: int, h1: int, h2: int, h3: int, n: int) -> bool:
    np_ = len(POOL)
    maxn = ctx.pick(3, 4)
    assume(2 <= n <= maxn)
    for h in (h0, h1, h2, h3):
        assume(0 <= h < np_)
    assume(h3 == 0 or n >= 4)
    assume(h2 == 0 or n >= 3)
    return _a_body([choose(h0, np_), choose(h1, np_), choose(h2, np_), choose(h3, np_)][:choose(n - 2, maxn - 1) + 2])


@native
def _a_body(hist):
    imp = kp.KernSpineImporter()
    for step, i in enumerate(hist):
        text = POOL[i]
        exp = _fresh_outcome(text)
        try:
            t = imp.import_token(text)
            got = ('ok', type(t).__name__, t.category.name, t.export(), _tok(t))
        except Exception:
            got = ('raises',)
        check(got == exp, f'history {[POOL[j] for j in hist[:step + 1]]}: outcome for {text!r} is {got[:4]}, on a fresh importer {exp[:4]}')
    return True


# ------------------------------------------------------------------ C12.b documents with a damage mask
DOCS = (
    [['**kern', '**text'], ['*clefG2', '*'], ['=1', '=1'], ['4c', 'la'], ['4d', 'li'], [], ['!! comment'], ['8e 8g', '.'], ['=2', '=2'], ['2r', 'lu'], ['==', '=='], ['*-', '*-']],
    [['**kern', '**kern', '**dynam'], ['4c', '4e', 'f'], [], [], ['4d', '4f', 'p'], ['*^', '*', '*'], ['4g', '4a', '4b', '.'], ['*v', '*v', '*', '*'], ['2cc', '2dd', 'mf'], ['*-', '*-', '*-']],
    [['!!!COM: x'], ['**kern'], ['4c'], ['4d'], ['4e'], ['4f'], ['*-']],
    [['**root', '**kern', '**text'], ['C', '4c', 'la'], ['=1', '=1', '=1'], ['G', '4d', 'li'], ['4A', '4e', 'lu'], ['*-', '*-', '*-']],
    # a long column: runs of malformed cells directly below each other in one spine, with valid notes after them
    [['**kern', '**text'], ['*clefG2', '*'], ['4c', 'la'], ['4d', 'li'], ['4e', 'lu'], ['4f', 'le'], ['4g', 'lo'], ['4a', 'ma'], ['=2', '=2'], ['4b', 'mi'], ['2cc', 'mu'], ['==', '=='], ['*-', '*-']],
)
KERN_BAD = ('4zz', '4c§', '%%', '4c 4', 'c4z', '', '4d ', ' 4e', '4rP', '8r 8rK', 'rMT', '4c\u20ac', '4\x7fc',
            '"zz"', '"zz', '4c\u0301', '\u212bzz')    # cells that begin with a double quote (csv dialects); text that is not NFC-normalised     # '' = a cell truncated to nothing (two adjacent TABs)     # malformed in a **kern spine (raise on a fresh importer on the pinned tree)


ALWAYS_BAD = ('4c\u20ac', '4\x7fc', '4c\u0301', '\u212bzz')       # characters that are not part of the kern alphabet at all: malformed whatever the current parser says


@native
def _data_cells(di):
    rows = DOCS[di]
    heads = next(r for r in rows if r and r[0].startswith('**'))
    out = []
    # spine type per column follows the layout of the fixed documents (no column moves except the split in doc 1)
    for r, row in enumerate(rows):
        if not row or row[0].startswith(('**', '!!', '*', '=')):
            continue
        for c, cell in enumerate(row):
            if cell == '.':
                continue
            if di == 1:
                kernish = (c < 2) if len(row) == 3 else (c < 3)
            else:
                kernish = heads[c] in ('**kern', '**root')       # **root cells are parsed with the kern grammar and report errors like **kern
            if kernish:
                out.append((r, c))
    return out


RUN_DOC = len(DOCS) - 1          # the long column: used by C12.b3 only


def ob_b3(start: int, run: int, bad: int) -> bool:
    """Runs of 1..8 malformed cells directly below each other in one spine (starting at the first, second or third data cell),
    valid notes after them: every cell of the run is reported, every later note is still a note."""
    assume(0 <= start < 3 and 1 <= run <= 8 and start + run <= 8 and 0 <= bad < 4)
    st, rn, bd = choose(start, 3), choose(run - 1, 8) + 1, choose(bad, 4)
    mask = ((1 << rn) - 1) << st
    return _b_body(RUN_DOC, mask, (0, 2, len(KERN_BAD) + 1, len(KERN_BAD) + 12)[bd], 8)


def ob_b(d: int, mask: int, bad: int) -> bool:
    assume(0 <= d < RUN_DOC)
    di = choose(d, RUN_DOC)
    n = _ncells(di)
    assume(0 <= mask < 2 ** n)
    assume(0 <= bad < 2 * len(KERN_BAD))      # second half: the SAME malformed text in every damaged cell (equal cells on one line are separate cells)
    return _b_body(di, choose(mask, 2 ** n), choose(bad, 2 * len(KERN_BAD)))


@native
def _ncells(di):
    return min(ctx.pick(6, 8), len(_data_cells(di)))


@native
def _b_body(di, mask, bad, ncells=None):
    cells_ = _data_cells(di)[:ncells or _ncells(di)]
    rows = [list(r) for r in DOCS[di]]
    damaged = []
    for k, (r, c) in enumerate(cells_):
        if mask >> k & 1:
            txt = KERN_BAD[(bad + k) % len(KERN_BAD)] if bad < len(KERN_BAD) else KERN_BAD[bad - len(KERN_BAD)]
            if txt == '' and len(rows[r]) == 1:
                continue                   # an empty cell on a one-column line is a blank line, not a cell
            if txt != '' and txt not in ALWAYS_BAD and _fresh_outcome(txt)[0] != 'raises':
                continue                   # the current parser accepts it: not a malformed cell for this run
            rows[r][c] = txt
            damaged.append((r, c, txt))
    text = ''.join('\t'.join(r) + '\n' for r in rows)
    clean_text = ''.join('\t'.join(r) + '\n' for r in DOCS[di])
    try:
        doc, errs = kp.loads(text)
    except Exception as e:
        check(False, f'import of a document with malformed cells {damaged} raised {type(e).__name__}: {e}')
    clean, cerrs = kp.loads(clean_text)
    check(not cerrs, 'undamaged document has errors')
    check(len(errs) == len(damaged), f'{len(damaged)} malformed cells {damaged}, {len(errs)} errors reported: {[(e.line, e.encoding) for e in errs]}')
    got = sorted((e.line, e.encoding) for e in errs)
    exp = sorted((r + 1, txt) for r, c, txt in damaged)
    check(got == exp, f'reported (line, text) {got}, expected {exp} (1-based line of the text, blank lines counted)')
    # every other token exactly as without the damage
    dmg = {(r, c) for r, c, _ in damaged}
    line_of_stage = [i for i, r in enumerate(rows) if r]          # stage s (1-based) <- text line index
    for s, (st, cst) in enumerate(zip(doc.tree.stages[1:], clean.tree.stages[1:])):
        check(len(st) == len(cst), f'stage {s + 1} has {len(st)} nodes, undamaged import {len(cst)}')
        for c, (a, b) in enumerate(zip(st, cst)):
            if (line_of_stage[s], c) in dmg:
                check(isinstance(a.token, tk.ErrorToken) and a.token.encoding == rows[line_of_stage[s]][c], f'damaged cell {rows[line_of_stage[s]][c]!r} is a {type(a.token).__name__}')
            else:
                check(_tok(a.token) == _tok(b.token), f'undamaged cell at line {line_of_stage[s] + 1} col {c} changed: {_tok(a.token)} vs {_tok(b.token)}')
    # exported verbatim in place
    if any(txt == '' for _, _, txt in damaged):
        kp.dumps(doc)          # must not raise; the written form of an empty cell (and of a line it empties) is outside the claim
        return True
    out = kp.dumps(doc)
    cout = kp.dumps(clean)
    grid = [ln.split('\t') for ln in out.split('\n') if ln]
    cgrid = [ln.split('\t') for ln in cout.split('\n') if ln]
    check(len(grid) == len(cgrid), f'export has {len(grid)} lines, undamaged export {len(cgrid)}')
    kept = [i for i, r in enumerate(rows) if r and not r[0].startswith('!!')]
    for gi, (g, cg) in enumerate(zip(grid, cgrid)):
        r = kept[gi]
        for c, (x, y) in enumerate(zip(g, cg)):
            if (r, c) in dmg:
                # an EMPTY malformed cell cannot be written verbatim into a TAB-separated line: a null placeholder is accepted for it
                check(x == rows[r][c] or (rows[r][c] == '' and x in ('.', '')), f'malformed cell {rows[r][c]!r} exported as {x!r}')
            else:
                check(x == y, f'cell at line {r + 1} col {c} exported as {x!r}, without the damage {y!r}')
    return True


# ------------------------------------------------------------------ C12.b2 stub tier: arbitrary malformed text
def ob_b2(s: str, blank: int, col: int, second: bool) -> bool:
    """Importer.run / ErrorToken / export preserve ANY rejected text and report it once with its line."""
    assume(1 <= len(s) <= ctx.pick(4, 7))
    assume(not s.startswith('*') and not s.startswith('!'))
    assume('\t' not in s and '\n' not in s and '\r' not in s)
    assume('@' not in s and '·' not in s)          # open finding KF-C03-separator-chars (plain export strips them from any token)
    assume(0 <= blank <= 2 and 0 <= col < 2)
    nb = choose(blank, 3)
    c = choose(col, 2)
    rows = [['**kern', '**kern'], ['4c', '4d']] + [[]] * nb + [['4e', '4f'], ['4g', '4a'], ['*-', '*-']]
    r = 2 + nb
    rows[r][c] = s
    if second:
        rows[r + 1][1 - c] = s
    bad = s

    class _Imp:
        def import_token(self, text):
            stubs.used()
            if text is bad:
                raise Exception('stub parser: syntax error')
            return kp.KernSpineImporter().import_token(text)
    with stubs.stub_importers(lambda header: _Imp()):
        imp = Importer()
        doc = imp.run(rows)
    stubs.require_used()
    exp_lines = [r + 1] + ([r + 2] if second else [])
    check([e.line for e in imp.errors] == exp_lines, lambda: f'error lines {[e.line for e in imp.errors]}, expected {exp_lines}')
    for e in imp.errors:
        check(e.encoding == s and e.export() == s and e.category == tk.TokenCategory.ERROR, 'error token does not carry the text verbatim')
    out = kp.dumps(doc)
    grid = [ln.split('\t') for ln in out.split('\n') if ln != '']
    check(len(grid) == 5, lambda: f'export grid {concrete(out)!r}')
    check(grid[2][c] == s, lambda: f'malformed cell {concrete(s)!r} exported as {concrete(grid[2][c])!r}')
    check(grid[1] == ['4c', '4d'] and grid[2][1 - c] == ('4f', '4e')[c] and grid[4] == ['*-', '*-'], 'an undamaged cell changed')
    return True


# ------------------------------------------------------------------ C12.c no silent shortening
GARBAGE = ('=', 'x', '4', '§', ' ', 'zz', '4d', ';;', '\u20ac', '\x7f')


@native
def _c_tokens():
    ts = sorted(t for t in ctx.DATA.get('tandem', {}) if t not in ('*', '.'))
    return list(VALID) + ts


_CT = []
_KF_IN = []


def _kf_inputs():
    if not _KF_IN:
        import json
        import os
        with open(os.path.join(os.path.dirname(os.path.dirname(os.path.dirname(os.path.abspath(__file__)))), 'known_findings.json')) as f:
            _KF_IN.append({t for e in json.load(f)['findings'] if e['id'] == 'KF-C12-trailing-garbage-dropped' for t in e.get('inputs', [])})
    return _KF_IN[0]


def ob_c(t: int, g: int) -> bool:
    global _CT
    if not _CT:
        _CT = _c_tokens()
    assume(0 <= t < len(_CT) and 0 <= g < len(GARBAGE))
    return _c_body(choose(t, len(_CT)), choose(g, len(GARBAGE)))


@native
def _c_body(t, g):
    text = _CT[t] + GARBAGE[g]
    try:
        tok = kp.KernSpineImporter().import_token(text)
    except Exception:
        return True
    out = tok.export().replace('@', '').replace('·', '')      # Token.export() is the extended form
    # every character of the cell must be accounted for by the exported token (order / separators may be normalised)
    ctx.known('KF-C12-trailing-garbage-dropped', text in _kf_inputs())       # the listed inputs only: any other shortened cell is reported
    check(sorted(out.replace(' ', '')) == sorted(text.replace(' ', '')),
          f'cell {text!r} was accepted but exports as {out!r}: characters were silently dropped or altered')
    return True


OBLIGATIONS = [
    Ob(id='C12.a', fn=ob_a, title='outcome for a cell never depends on which cells the spine importer parsed before',
       shard_of=lambda h0, h1, h2, h3, n: h0 + 24 * h1, shards={'quick': 16, 'thorough': 16}, budget_s={'quick': 170, 'thorough': 2400},
       witnesses=[{'h0': 8, 'h1': 0, 'h2': 0, 'h3': 0, 'n': 2}], min_confirmed=2000,
       enumerated='history of 2..3 (quick) / 2..4 (thorough) cell texts from a pool of 8 valid and 16 malformed kinds',
       bounds={'quick': 'all 24^2 + 24^3 histories', 'thorough': '+ 24^4'}),
    Ob(id='C12.b', fn=ob_b, title='documents x damage masks: one error per malformed cell with its line, other tokens untouched, verbatim export',
       shard_of=lambda d, mask, bad: mask, shards={'quick': 16, 'thorough': 16}, budget_s={'quick': 170, 'thorough': 1200},
       witnesses=[{'d': 0, 'mask': 5, 'bad': 0}], min_confirmed=300, enumerated='document, damage mask over the **kern data cells, malformed kind (rotating over the damaged cells, or the same text in all of them)',
       bounds={'quick': '4 documents (blank lines, global comments, split/join, non-kern spines) x every subset of the first 6 data cells x 17 malformed kinds (incl. the empty cell, cells with a blank at either end, cells beginning with a double quote, text that is not NFC-normalised, rests with note-only signs); a **root spine',
               'thorough': 'first 8 data cells'}),
    Ob(id='C12.b3', fn=ob_b3, title='runs of 1..8 malformed cells directly below each other in one spine, valid notes after them',
       budget_s={'quick': 120, 'thorough': 600}, witnesses=[{'start': 0, 'run': 5, 'bad': 0}], min_confirmed=40,
       enumerated='first damaged cell (3), run length (1..8), malformed kind (4: rotating / the same text in every cell)',
       bounds={'quick': 'one 8-note column next to a text spine; every run that fits', 'thorough': 'same'}),
    Ob(id='C12.b2', fn=ob_b2, title='stub tier: ANY rejected text is wrapped once, reported with its line, exported verbatim',
       budget_s={'quick': 170, 'thorough': 1800}, per_path_s=150.0, shard_of=lambda s, blank, col, second: blank + 3 * col + 6 * (1 if second else 0), shards={'quick': 12, 'thorough': 12},
       witnesses=[{'s': '4zz', 'blank': 1, 'col': 0, 'second': True}], min_confirmed=12,
       symbolic='malformed cell text (arbitrary string)', enumerated='blank lines before it (0..2), column, second occurrence',
       stub_optional=True, stubs=['spine importer that raises for the symbolic cell and delegates every other cell to the real KernSpineImporter'],
       assumptions=['text does not start with * or ! (other line classes), contains no TAB/CR/LF and none of the two separator characters'],
       bounds={'quick': 'text 1..4 chars', 'thorough': 'text 1..7 chars'}),
    Ob(id='C12.c', fn=ob_c, title='a cell is never silently shortened: token + garbage either raises or is fully accounted for',
       shard_of=lambda t, g: t, shards={'quick': 8, 'thorough': 8}, budget_s={'quick': 150, 'thorough': 900},
       witnesses=[{'t': 0, 'g': 1}], min_confirmed=100, enumerated='token from the corpus x garbage suffix',
       bounds={'quick': '8 note/barline forms + every accepted tandem interpretation x 8 garbage suffixes', 'thorough': 'same'}),
]
