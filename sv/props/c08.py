"""C08  A measure excerpt is a self-contained, equivalent score.

Anchors: Exporter.export_string ('if options.from_measure' block: backwards header / spine-operator
recovery, signature rows, synthetic terminator row), Exporter.is_signature_cancelled,
SignatureNodes / Importer.run (last-signature bookkeeping).
Oracles: reference spine-path model as well-formedness validator; text-level signature model.
"""
import itertools

from sv.engine import ctx
from sv.engine.ob import Ob
from sv.engine.xh import SENTINEL, assume, check, choose, concrete, native
from sv.ref import spinepath as sp

import kernpy as kp
from kernpy.core import tokens as tk

META = {
    'outside': ['more than 4 measures; more than 2 **kern spines; splits that stay open across a barline in the claimed core',
                'documents without any signature'],
    'assumptions': ['claimed core (property text): signatures precede the first measure, every *^ is re-joined before the next barline, '
                    'export restricted to the **kern spines'],
}

SIGSETS = ((('*clefG2',), ('*k[f#]',), ('*M4/4',)), (('*clefF4', '*clefG2'), ('*k[b-e-]',), ('*M3/4',)), (('*clefC3',), ('*M6/8',)),
           (('*clefG2', '*clefF4'), ('*k[]',), ('*met(c)',), ('*M2/2',)),
           # every signature differs from spine to spine (a transposing instrument above a piano part, polymetric notation)
           (('*clefG2', '*clefF4', '*clefC3'), ('*k[]', '*k[b-e-]', '*k[f#]'), ('*M4/4', '*M2/2', '*M12/8')))
KINDS = ('notes', 'chords', 'rests')
PITCH = 'cdefgab'
RESTS = ('4r', '8r', '2r', '1r', '16r', '8.r', '4.r', '2.r', '16.r', '32r', '1.r', '2..r', '4..r', '8..r', '32.r', '64r', '12r', '6r', '3r', '24r',
         '48r', '0r', '00r', '128r', '64.r', '12.r', '6.r', '3.r', '24.r', '48.r')


def build(M, sigset, ks, text_spine, split_m, nested, kinds, final, change_m=0, open_split=False, gcomments=0, tight_join=False, split_col=0):
    """Rows of a score: M measures each opened by a barline, 2 data rows per measure.
    split_m: measure (1-based, 0 = none) in which spine 0 splits and re-joins (nested: splits twice, joins stepwise);
    kinds[m]: what spine 0 holds in measure m; change_m: measure before which a clef change row is inserted (tracked class);
    open_split: the split of split_m is joined only in the NEXT measure (tracked class); split_col: the spine that splits (0 = the first,
    1 = an inner / the last one: cells to the LEFT of the operators)."""
    sc = split_col
    assert sc < ks
    heads = ['**kern'] * ks + (['**text'] if text_spine else [])
    rows = [list(heads)]
    for sigrow in SIGSETS[sigset]:
        rows.append([sigrow[min(c, len(sigrow) - 1)] for c in range(ks)] + (['*staff9'] if text_spine else []))
    counter = [0]

    def cell(col_kind):
        i = counter[0]
        counter[0] += 1
        p = PITCH[i % 7] * (1 + (i // 7) % 2)
        if col_kind == 'chords':
            return '%s%s %s%s' % (('4', '8', '2', '16')[(i // 14) % 4], p, ('4', '8', '2', '16')[(i // 14) % 4], PITCH[(i + 2) % 7] * (1 + (i // 7) % 2))
        if col_kind == 'rests':
            return RESTS[i % len(RESTS)]
        return ('4', '8', '2', '16', '8.', '4.')[(i // 14) % 6] + p
    live_extra = 0           # extra sub-spine columns of spine 0
    pending_join = False

    def below_operator(width_extra):
        # a local-comment row (one comment cell per live column) directly below a split / join row
        if gcomments & 4:
            rows.append(['!lc%d' % (len(rows) * 10 + j) for j in range(ks + width_extra + (1 if text_spine else 0))])
    for m in range(1, M + 1):
        if change_m == m:
            rows.append(['*clefC1'] + ['*'] * (ks - 1 + live_extra) + (['*'] if text_spine else []))
        rows.append(['=%d' % m] * (ks + live_extra) + (['=%d' % m] if text_spine else []))
        if gcomments & 1:
            rows.append(['!! section %d' % m])          # a global comment directly after the barline
        k0 = kinds[(m - 1) % len(kinds)]

        def data():
            return ([cell(k0 if c == 0 else 'notes') for c in range(sc + 1)] + [cell('notes') for _ in range(live_extra)]
                    + [cell('notes') for _ in range(ks - 1 - sc)] + (['la%d' % counter[0]] if text_spine else []))
        if pending_join:
            rows.append(data())
            rows.append(['*'] * sc + ['*v', '*v'] + ['*'] * (ks - 1 - sc) + (['*'] if text_spine else []))
            live_extra = 0
            below_operator(0)
            pending_join = False
        rows.append(data())
        if split_m == m:
            rows.append(['*'] * sc + ['*^'] + ['*'] * (ks - 1 - sc) + (['*'] if text_spine else []))
            live_extra = 1
            below_operator(1)
            rows.append(data())
            if nested:
                rows.append(['*'] * sc + ['*^', '*'] + ['*'] * (ks - 1 - sc) + (['*'] if text_spine else []))
                live_extra = 2
                below_operator(2)
                rows.append(data())
                rows.append(['*'] * sc + ['*v', '*v', '*'] + ['*'] * (ks - 1 - sc) + (['*'] if text_spine else []))
                live_extra = 1
                below_operator(1)
                rows.append(data())
            if open_split:
                pending_join = True
            else:
                rows.append(['*'] * sc + ['*v', '*v'] + ['*'] * (ks - 1 - sc) + (['*'] if text_spine else []))
                live_extra = 0
                below_operator(0)
                if tight_join:
                    continue           # the join row stands directly in front of the next barline
        rows.append(data())
    if pending_join:
        rows.append(['*'] * sc + ['*v', '*v'] + ['*'] * (ks - 1 - sc) + (['*'] if text_spine else []))
        live_extra = 0
    if final:
        rows.append(['=='] * ks + (['=='] if text_spine else []))
        if gcomments & 1:
            rows.append(['!! the end'])
    rows.append(['*-'] * ks + (['*-'] if text_spine else []))
    if gcomments & 2:
        rows.insert(0, ['!!!COM: Anon'])
        rows.append(['!!!ENC: x'])
    return rows


def model_signatures(rows):
    """data cell text -> {class name: signature text} in force (text-level: nearest signature above on the spine path)."""
    an = sp.analyse(rows)
    cm = {(c.row, c.col): c for r in an for c in r}
    out = {}

    def cls_of(t):
        if t.startswith('*clef'):
            return 'ClefToken'
        if t.startswith('*k['):
            return 'KeySignatureToken'
        if t.startswith('*met('):
            return 'MeterSymbolToken'
        if t.startswith('*M') and t[2:3].isdigit():
            return 'TimeSignatureToken'
        return None
    for r in an:
        for c in r:
            if c.text.startswith(('*', '=', '!')) or c.header != '**kern':
                continue
            sigs = {}
            k = c.parent
            while k is not None:
                t = cm[k].text
                cl = cls_of(t)
                if cl and cl not in sigs:
                    sigs[cl] = t
                k = cm[k].parent
            out[c.text] = sigs
    return out


def doc_signatures(doc):
    out = {}
    for st in doc.tree.stages[1:]:
        for n in st:
            if isinstance(n.token, (tk.NoteRestToken, tk.ChordToken)) and n.header_node is not None and n.header_node.token.encoding == '**kern':
                out[n.token.encoding] = {k: v.token.encoding for k, v in n.last_signature_nodes.nodes.items()}
    return out


def _shapes(tier, tracked=False):
    out = []
    Ms = (2, 3) if tier == 'quick' else (2, 3, 4)
    for M in Ms:
        for sigset in (range(len(SIGSETS)) if tier != 'quick' else ((0, 1) if M == 2 else (2, 3))):
            for ks, ts in ((1, 0), (2, 0), (1, 1)):
                for split_m, nested in ((0, 0), (1, 0), (2, 0), (1, 1), (M, 1)):
                    for kinds in (('notes',), ('chords', 'notes'), ('notes', 'chords', 'rests'), ('chords',)):
                        if tier == 'quick' and (sigset + ks + split_m + len(kinds)) % 2 and not (nested or kinds == ('chords',)):
                            continue         # quick: every second combination of the plain shapes
                        for final in (0, 1):
                            out.append((M, sigset, ks, ts, split_m, nested, kinds, final))
    # the join row directly in front of the next barline (no data row in between)
    for M in (2, 3):
        for sigset in (1, 3):
            for ks, ts in ((2, 0), (1, 1), (1, 0)):
                for split_m in (1, 2):
                    for final in (0, 1):
                        out.append((M, sigset, ks, ts, split_m, 0, ('notes',), final, 0, False, 0, True))
    # per-spine key and time signatures; three spines, the inner or the last one splits (cells to the left of the operators)
    for M in (2, 3):
        for ks, ts in ((2, 0), (3, 0)):
            for split_m, nested, sc in ((0, 0, 0), (1, 0, 0), (1, 0, 1), (2, 1, 1), (1, 0, ks - 1), (M, 0, 1)):
                for final in ((0, 1) if M == 3 else (1,)):
                    out.append((M, 4, ks, ts, split_m, nested, ('notes', 'chords'), final, 0, False, 0, False, sc))
    # global comments directly after every barline / around the score
    for M in (2, 3):
        for ks, ts in ((1, 0), (2, 0), (1, 1)):
            for split_m in (0, 1):
                for final in (0, 1):
                    for gc in (1, 3):
                        out.append((M, (M + ks) % len(SIGSETS), ks, ts, split_m, 0, ('notes',), final, 0, False, gc))
    # local-comment rows directly below every split / join row (the comment cells sit between the operator and the sub-spines)
    for M in (2, 3):
        for ks, ts in ((1, 0), (2, 0), (1, 1)):
            for split_m, nested in ((1, 0), (2, 0), (1, 1)):
                for final in (0, 1):
                    out.append((M, (M + ks) % len(SIGSETS), ks, ts, split_m, nested, ('notes',), final, 0, False, 4))
    return out


SHAPES = []
TSHAPES = []
_CACHE = {}


def load(tier):
    global SHAPES, TSHAPES
    SHAPES = _shapes(tier)
    # tracked classes: (class, shape...)
    TSHAPES = []
    for M in (3,):
        for ks in (1, 2):
            for final in (0, 1):
                TSHAPES.append(('core', (M, 0, ks, 0, 0, 0, ('notes',), final), {}))
                for cm in (2, 3):
                    TSHAPES.append(('mid-score signature change', (M, 0, ks, 0, 0, 0, ('notes',), final), {'change_m': cm}))
                TSHAPES.append(('excerpt starting inside a split', (M, 0, ks, 0, 1, 0, ('notes',), final), {'open_split': True}))
                TSHAPES.append(('non-kern spine in the excerpt', (M, 0, ks, 1, 0, 0, ('notes',), final), {'keep_text': True}))


@native
def get(key, shape, extra=None):
    if key not in _CACHE:
        kw = {k: v for k, v in (extra or {}).items() if k != 'keep_text'}
        rows = build(*shape, **kw)
        text = sp.to_text(rows)
        doc, errs = kp.loads(text)
        _CACHE[key] = (rows, text, doc, list(errs), model_signatures(rows), doc_signatures(doc))
    return _CACHE[key]


@native
def _check_excerpt(x, rows, full_model, full_doc_sigs, a, b, what):
    wf = sp.well_formed(x)
    check(wf == '', f'{what} {a}..{b} is not a well-formed Humdrum document ({wf}): {x!r}')
    check(x.split('\n')[0].startswith('**'), f'{what} {a}..{b}: header line is not first: {x!r}')
    xd, xerrs = kp.loads(x)
    check(not xerrs, f'{what} {a}..{b} does not re-import cleanly: {[str(e) for e in xerrs]}; {x!r}')
    xs = doc_signatures(xd)
    check(len(xs) > 0 or not any(c and not c[0].startswith(('*', '=', '!')) for c in [ln.split('\t') for ln in x.split('\n')[1:] if ln]),
          f'{what} {a}..{b}: no note found in the re-imported excerpt')
    for cell, sigs in xs.items():
        check(cell in full_model, f'{what} {a}..{b}: cell {cell!r} is not a cell of the score')
        check(sigs == full_doc_sigs[cell], f'{what} {a}..{b}: note {cell!r} is governed by {sigs} in the excerpt, by {full_doc_sigs[cell]} in the full score; excerpt {x!r}')
        check(sigs == full_model[cell], f'{what} {a}..{b}: note {cell!r} is governed by {sigs}, the text says {full_model[cell]}')
    return True


def ob_a(shape: int, a: int, b: int) -> bool:
    assume(0 <= shape < len(SHAPES))
    si = choose(shape, len(SHAPES))
    rows, text, doc, errs, model, dsig = get(('a', si), SHAPES[si])
    M = SHAPES[si][0] + SHAPES[si][7]            # the final barline opens one more (empty) measure
    assume(1 <= a <= b <= M)
    check(not errs, 'import errors')
    check(dsig == {k: v for k, v in model.items()}, lambda: f'full score: signature bookkeeping {dsig} differs from the text {model}')
    x = kp.dumps(doc, from_measure=a, to_measure=b, spine_types=['**kern'])
    check(SENTINEL not in x, 'tripwire')
    ac, bc = concrete(a), concrete(b)
    _check_excerpt(concrete(x), rows, model, dsig, ac, bc, 'excerpt')
    return _again(doc, concrete(x), ac, bc, M)


@native
def _again(doc, x, a, b, M):
    # the same and a longer excerpt from the same start, on the same Document object: nothing of the first one may stick
    x2 = kp.dumps(doc, from_measure=a, to_measure=b, spine_types=['**kern'])
    check(x2 == x, f'the excerpt {a}..{b} exported a second time from the same document differs: {x2!r} vs {x!r}')
    if b < M:
        x3 = kp.dumps(doc, from_measure=a, to_measure=M, spine_types=['**kern'])
        wf = sp.well_formed(x3)
        check(wf == '', f'excerpt {a}..{M} exported after {a}..{b} from the same document is not well formed ({wf}): {x3!r}')
        check(x3.count('**kern') == x.count('**kern'), f'header material repeated in {x3!r}')
    return True


def ob_b(t: int, a: int, b: int) -> bool:
    """Classes the property tracks as findings (mid-score signature changes, excerpts starting inside a split, non-kern spines)."""
    assume(0 <= t < len(TSHAPES))
    ti = choose(t, len(TSHAPES))
    cname, shape, extra = TSHAPES[ti]
    rows, text, doc, errs, model, dsig = get(('b', ti), shape, extra)
    M = shape[0] + shape[7]
    assume(1 <= a <= b <= M)
    ac, bc = choose(a - 1, M) + 1, choose(b - 1, M) + 1
    return _b_body(ti, ac, bc)


@native
def _b_body(ti, a, b):
    cname, shape, extra = TSHAPES[ti]
    rows, text, doc, errs, model, dsig = get(('b', ti), shape, extra)
    split_m = shape[4]
    ctx.known('KF-C08-excerpt-inside-split', cname == 'excerpt starting inside a split' and a == split_m + 1)
    ctx.known('KF-C08-non-kern-spines', cname == 'non-kern spine in the excerpt')
    kw = {} if extra.get('keep_text') else {'spine_types': ['**kern']}
    try:
        x = kp.dumps(doc, from_measure=a, to_measure=b, **kw)
    except Exception as e:
        check(False, f'{cname}: dumps(from_measure={a}, to_measure={b}) raised {type(e).__name__}: {e}')
    return _check_excerpt(x, rows, model, dsig, a, b, cname)


# ------------------------------------------------------------------ C08.c excerpts far down a long score
LONG = ((300, 0), (1200, 0), (1200, 600))


def ob_c(k: int, w: int) -> bool:
    assume(0 <= k < len(LONG) and 0 <= w < 6)
    return _c_body(choose(k, len(LONG)), choose(w, 6))


@native
def _c_body(k, w):
    """Scores of hundreds of measures (kern + text, one split + join in the third variant): excerpts near the start, in the middle,
    right behind the join and at the very end are well formed, re-import cleanly and keep clef and meter for every note."""
    from sv.ref import longdoc
    key = ('c', k)
    if key not in _CACHE:
        D = longdoc.long_doc(LONG[k][0], True, LONG[k][1], comments=False)
        rows = [[c.source() for c in r] for r in D.rows]
        text = D.text()
        doc, errs = kp.loads(text)
        _CACHE[key] = (rows, text, doc, list(errs), model_signatures(rows), doc_signatures(doc), longdoc.n_measures(D))
    rows, text, doc, errs, model, dsig, M = _CACHE[key]
    check(not errs, 'import errors')
    split_measure = (LONG[k][1] // 4 + 3) if LONG[k][1] else M // 3
    a, b = ((2, 3), (M // 2, M // 2 + 2), (split_measure, split_measure + 1), (M - 40, M - 38), (M - 2, M - 1), (M - 1, M))[w]
    try:
        x = kp.dumps(doc, from_measure=a, to_measure=b, spine_types=['**kern'])
    except Exception as e:
        check(False, f'score of {M} measures: dumps(from_measure={a}, to_measure={b}) raised {type(e).__name__}: {str(e)[:120]}')
    return _check_excerpt(x, rows, model, dsig, a, b, f'score of {M} measures: excerpt')


def _desc(shape, a=None, b=None):
    return {'text': sp.to_text(build(*SHAPES[shape])), 'from_measure': a, 'to_measure': b}


UNTRACE = [('kernpy.core.exporter', 'Exporter.append_row'), ('kernpy.core.exporter', 'Exporter.export_token'),
           ('kernpy.core.tokens', 'TokenCategoryHierarchyMapper.valid')]

OBLIGATIONS = [
    Ob(id='C08.a', fn=ob_a, title='claimed core: every excerpt is well formed, re-imports cleanly, and every note keeps its clef / key / meter',
       shard_of=lambda shape, a, b: shape, shards={'quick': 32, 'thorough': 32}, budget_s={'quick': 170, 'thorough': 2400}, opaque_numbers=True, untrace=UNTRACE,
       witnesses=[{'shape': 0, 'a': 1, 'b': 2}], min_confirmed=500,
       symbolic='from_measure, to_measure (integers, assumed 1 <= a <= b <= M)', enumerated='score shape',
       bounds={'quick': 'M in {2,3} x 2 of 4 signature sets per M (clef/key/meter/meter symbol, per-spine clefs) x {1 kern, 2 kern, kern+text} x {no split, split+join in measure 1 / 2, '
                        'nested split with stepwise join in measure 1 / M} x spine-0 content {notes, chords/notes alternating, notes/chords/rests, chords only} x final barline '
                        '(every second plain combination); + global comments directly after every barline / around the score', 'thorough': 'M in {2,3,4}, all combinations'}, describe=_desc),
    Ob(id='C08.c', fn=ob_c, title='excerpts near the start, in the middle, behind a join and at the end of scores with hundreds of measures',
       shard_of=lambda k, w: k, shards={'quick': 3, 'thorough': 3}, budget_s={'quick': 150, 'thorough': 600}, native_body=True,
       witnesses=[{'k': 0, 'w': 1}], min_confirmed=12, enumerated='score (3), window (6)',
       bounds={'quick': 'kern + text scores of 300 / 1200 data rows (75 / 300 measures), the last one with a split + join in the middle; 6 windows each', 'thorough': 'same'}),
    Ob(id='C08.b', fn=ob_b, title='tracked classes: mid-score signature change, excerpt starting inside a split, non-kern spines in the excerpt',
       shard_of=lambda t, a, b: t, shards={'quick': 4, 'thorough': 4}, budget_s={'quick': 150, 'thorough': 600},
       witnesses=[{'t': 0, 'a': 1, 'b': 1}], min_confirmed=20, enumerated='tracked shape, a, b',
       bounds={'quick': 'M = 3, 1-2 kern spines, with / without final barline: clef change before measure 2 / 3; split left open across a barline; kern + text exported without spine filter',
               'thorough': 'same'}),
]
