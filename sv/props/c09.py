"""C09  Transposition is exact interval arithmetic.

Anchors: Chromas / ChromasByValue (pitch_models.py), Intervals / IntervalsByName
(transposer.py), AgnosticPitch.get_chroma / to_transposed, transposer.transpose.
Oracle: letter/semitone model in sv/ref/pitch.py; interval sizes derived from the
interval *names* (quality + number), never from kernpy's tables.
"""
import random

import z3

from sv.engine import ctx, pz
from sv.engine.ob import Ob
from sv.engine.xh import assume, check, choose, native
from sv.ref import pitch as rp

import kernpy as kp
from kernpy.core import pitch_models as pm, transposer as tr

INAMES = rp.expected_interval_names()          # the 40 names the model derives
NI = len(INAMES)
ISIZE = [rp.interval_sizes(n) for n in INAMES]
ALTS = (-2, -1, 0, 1, 2)

META = {
    'outside': ['pitches whose name is not in the base-40 table (more than two sharps; triple flats other than D/E/A/B)',
                'E1 grid: octaves outside 0..8', 'results that are not spellable with at most two accidentals are unconstrained (the call may raise or return anything)'],
    'assumptions': [],
}


# ------------------------------------------------------------------ native / E1 end-to-end check
_DIR_CALLS = [0]


def _dir(up):
    """The direction as a caller may hold it: the literal, or an equal string that was computed (read from a file, lower-cased,
    joined) and is therefore another object than kernpy's own constant."""
    _DIR_CALLS[0] += 1
    word = 'up' if up else 'down'
    k = _DIR_CALLS[0] % 3
    if k == 1:
        return ''.join(list(word))          # equal, not identical
    if k == 2:
        return (' ' + word.upper()).lower().strip()
    return word


def ob_b(letter: int, alt: int, octave: int, iv: int, up: bool) -> bool:
    """kernpy.transpose on a concrete spelling against the pitch model; inverse law."""
    octs = ctx.pick((0, 3, 4, 8), (0, 1, 2, 3, 4, 5, 6, 7, 8))
    assume(0 <= letter < 7)
    assume(-2 <= alt <= 2)
    assume(0 <= octave < len(octs))
    assume(0 <= iv < NI)
    # selectors are consumed by binary-search forks; the call itself is one concrete execution
    return _b_body(choose(letter, 7), choose(alt + 2, 5) - 2, octs[choose(octave, len(octs))], choose(iv, NI), bool(up))


@native
def _b_body(letter, alt, o, iv, up):
    name = INAMES[iv]
    d, s = ISIZE[iv]
    src = rp.humdrum(letter, alt, o)
    check(name in kp.IntervalsByName, f'interval {name} missing from IntervalsByName')
    raw = kp.IntervalsByName[name]
    L2, A2, O2 = rp.transpose(letter, alt, o, d, s, up)
    spellable = -2 <= A2 <= 2
    try:
        got = kp.transpose(src, raw, direction=_dir(up))
    except Exception as e:
        check(not spellable, f'transpose({src!r}, {name}, {_dir(up)}) raised {type(e).__name__}: {e} but the result '
                             f'{rp.agnostic_name(L2, A2)}{O2} is spellable')
        return True
    if spellable:
        exp = rp.humdrum(L2, A2, O2)
        check(got == exp, f'transpose({src!r}, {name}, {_dir(up)}) = {got!r}, model {exp!r}')
    back = kp.transpose(got, raw, direction=_dir(not up))
    check(back == src, f'transpose back: {src!r} -{name} {_dir(up)}-> {got!r} -{_dir(not up)}-> {back!r}')
    return True


def ob_laws(letter: int, alt: int, octave: int, up: bool) -> bool:
    """unison = identity; octave keeps the name; a fourth then a fifth = an octave (public API)."""
    assume(0 <= letter < 7)
    assume(-2 <= alt <= 2)
    assume(0 <= octave <= 8)
    return _laws_body(choose(letter, 7), choose(alt + 2, 5) - 2, choose(octave, 9), bool(up))


@native
def _laws_body(letter, a, o, up):
    src = rp.humdrum(letter, a, o)
    ibn = kp.IntervalsByName
    check(kp.transpose(src, ibn['P1'], direction=_dir(up)) == src, f'P1 is not the identity on {src!r}')
    got8 = kp.transpose(src, ibn['octave'], direction=_dir(up))
    exp8 = rp.humdrum(letter, a, o + (1 if up else -1))
    check(got8 == exp8, f'octave {_dir(up)} of {src!r} = {got8!r}, expected {exp8!r}')
    # P4 then P5: the intermediate pitch is spellable unless it needs a third accidental
    L4, A4, O4 = rp.transpose(letter, a, o, 3, 5, up)
    if -2 <= A4 <= 2:
        mid = kp.transpose(src, ibn['P4'], direction=_dir(up))
        got = kp.transpose(mid, ibn['P5'], direction=_dir(up))
        check(got == exp8, f'P5(P4({src!r})) {_dir(up)} = {got!r}, octave = {exp8!r}')
    return True


def ob_d(letter: int, alt: int, o1: int, o2: int, iv: int, up: bool) -> bool:
    """Histories on ONE pitch object: transpose, move it to another octave / name through the public setters, transpose
    again - every answer must be the one a freshly built pitch gives (nothing may be remembered from the first call)."""
    assume(0 <= letter < 7 and -2 <= alt <= 2 and 0 <= o1 <= 8 and 0 <= o2 <= 8 and 0 <= iv < NI)
    if not ctx.thorough():
        assume((o1 == 2 or o1 == 4 or o1 == 5) and (o2 == 2 or o2 == 4 or o2 == 5))
    return _d_body(choose(letter, 7), choose(alt + 2, 5) - 2, choose(o1, 9), choose(o2, 9), choose(iv, NI), bool(up))


@native
def _d_body(letter, alt, o1, o2, iv, up):
    name = INAMES[iv]
    raw = kp.IntervalsByName.get(name)
    if raw is None:
        return True
    d, s = ISIZE[iv]
    p = pm.AgnosticPitch(rp.agnostic_name(letter, alt), o1)

    def expect(L, A, O):
        L2, A2, O2 = rp.transpose(L, A, O, d, s, up)
        return (rp.agnostic_name(L2, A2), O2) if -2 <= A2 <= 2 else None

    def got(pitch):
        try:
            r = pm.AgnosticPitch.to_transposed(pitch, raw, _dir(up))
            return (r.name, r.octave)
        except KeyError:
            return 'KeyError'
    for step, (L, A, O) in enumerate(((letter, alt, o1), (letter, alt, o2), ((letter + 2) % 7, -alt, o2))):
        if step == 1:
            p.octave = O
        elif step == 2:
            p.name = rp.agnostic_name(L, A)
        e = expect(L, A, O)
        g = got(p)
        if e is not None:
            check(g == e, f'one pitch object, step {step}: {rp.agnostic_name(L, A)}{O} {name} {_dir(up)} -> {g}, model {e}')
        fresh = got(pm.AgnosticPitch(rp.agnostic_name(L, A), O))
        check(g == fresh, f'one pitch object, step {step}: {g}, a freshly built {rp.agnostic_name(L, A)}{O} gives {fresh}')
        check(p.get_chroma() == pm.AgnosticPitch(rp.agnostic_name(L, A), O).get_chroma(), f'get_chroma() of the re-used object differs from a fresh one at step {step}')
    return True


# ------------------------------------------------------------------ table sanity on the live objects
def fn_tables(dummy: int = 0) -> bool:
    check(sorted(kp.AVAILABLE_INTERVALS) == INAMES, f'AVAILABLE_INTERVALS differs from the 40 derived names: '
          f'{sorted(set(kp.AVAILABLE_INTERVALS) ^ set(INAMES))}')
    check(kp.IntervalsByName == {v: k for k, v in kp.Intervals.items()} and len(kp.Intervals) == len(kp.IntervalsByName),
          'IntervalsByName is not the inverse of Intervals')
    c4 = pm.AgnosticPitch('C', 4).get_chroma()
    for n in INAMES:
        d, s = rp.interval_sizes(n)
        L2, A2, O2 = rp.transpose(0, 0, 4, d, s, True)
        target = pm.AgnosticPitch(rp.agnostic_name(L2, A2), O2)
        check(kp.IntervalsByName[n] == target.get_chroma() - c4,
              f'IntervalsByName[{n}] = {kp.IntervalsByName[n]}, chroma({target}) - chroma(C4) = {target.get_chroma() - c4}')
    check(pm.ChromasByValue == {v: k for k, v in pm.Chromas.items()} and len(pm.ChromasByValue) == len(pm.Chromas),
          'ChromasByValue is not the inverse of Chromas')
    return True


def run_tables(tier):
    from sv.engine.xh import run_native
    v, msg = run_native(fn_tables, {'dummy': 0})
    return {'queries': 1, 'unsat': 1 if v else 0, 'sat': 0 if v else 1, 'unknown': 0, 'solver_s': 0.0,
            'cex': [] if v else [{'args': {'dummy': 0}, 'message': msg}], 'samples': [{'query': 'live table sanity (native)', 'result': 'ok' if v else msg}],
            'functions': ['core.transposer:Intervals', 'core.pitch_models:Chromas'], 'tables': ['Intervals', 'IntervalsByName', 'AVAILABLE_INTERVALS', 'Chromas', 'ChromasByValue'],
            'validated_points': 1, 'decided': True, 'notes': 'concrete check of the live tables, no solver involved'}


# ------------------------------------------------------------------ C09.a arithmetic core, all integer octaves (E2)
def fn_a(name: str, octave: int, interval: str, up: bool) -> bool:
    """Native replay form: AgnosticPitch level, any integer octave."""
    L, A = rp.name_parts(name)
    d, s = rp.interval_sizes(interval)
    raw = kp.IntervalsByName[interval]
    L2, A2, O2 = rp.transpose(L, A, octave, d, s, up)
    p = pm.AgnosticPitch(name, octave)
    try:
        r = pm.AgnosticPitch.to_transposed(p, raw, _dir(up))
    except KeyError:
        check(not (-2 <= A2 <= 2), f'to_transposed({name}{octave}, {interval}, {_dir(up)}) raised KeyError but {rp.agnostic_name(L2, A2)}{O2} is spellable')
        return True
    if -2 <= A2 <= 2:
        check((r.name, r.octave) == (rp.agnostic_name(L2, A2), O2),
              f'to_transposed({name}{octave}, {interval}, {_dir(up)}) = {r.name}{r.octave}, model {rp.agnostic_name(L2, A2)}{O2}')
    b = pm.AgnosticPitch.to_transposed(r, raw, _dir(not up))
    check((b.name, b.octave) == (p.name, p.octave), f'back-transposition of {name}{octave} by {interval}: {b.name}{b.octave}')
    if interval == 'P1':
        check((r.name, r.octave) == (name, octave), 'P1 is not the identity')
    if interval == 'octave':
        check((r.name, r.octave) == (name, octave + (1 if up else -1)), 'octave does not keep the name / move the octave by one')
    if interval == 'P4' and -2 <= A2 <= 2:
        r2 = pm.AgnosticPitch.to_transposed(r, kp.IntervalsByName['P5'], _dir(up))
        check((r2.name, r2.octave) == (name, octave + (1 if up else -1)), f'P5(P4({name}{octave})) = {r2.name}{r2.octave}')
    return True


def run_a(tier, k=0, n=1):
    q = pz.Queries(tier)
    NAMES = sorted(pm.Chromas, key=pm.Chromas.get)
    NIDX = {n: i for i, n in enumerate(NAMES)}
    DOM = [n for n in NAMES if abs(rp.name_parts(n)[1]) <= 2]
    MISSING = z3.IntVal(-1)                     # distinguished value: KeyError
    chromas_t = pz.table({NIDX[n]: v for n, v in pm.Chromas.items()}, default=z3.IntVal(-1000))
    by_value_t = pz.table({v: NIDX[n] for v, n in pm.ChromasByValue.items()}, default=MISSING)
    let_t = pz.table({NIDX[n]: rp.name_parts(n)[0] for n in NAMES}, default=z3.IntVal(-7))
    alt_t = pz.table({NIDX[n]: rp.name_parts(n)[1] for n in NAMES}, default=z3.IntVal(-7))
    base_t = pz.table(dict(enumerate(rp.BASE)), default=z3.IntVal(-100))

    def chroma_of(name_i, octave):
        return pz.translate(pm.AgnosticPitch.get_chroma, {'self': pz.Record(name=name_i, octave=octave), 'Chromas': chromas_t})

    def transposed(name_i, octave, raw, up):
        env = {'cls': None,
               'agnostic_pitch': pz.Record(get_chroma=lambda: chroma_of(name_i, octave)),
               'raw_interval': raw,
               'direction': z3.If(up, z3.StringVal(pm.Direction.UP.value), z3.StringVal(pm.Direction.DOWN.value)),
               'Direction': pm.Direction, 'ChromasByValue': by_value_t,
               # stub: the constructor is a record; the name setter is the identity on table names (validated below)
               'AgnosticPitch': lambda name, octave: pz.Record(name=name, octave=octave)}
        return pz.translate(pm.AgnosticPitch.to_transposed, env)

    name_i, octave = z3.Ints('name octave')
    up = z3.Bool('up')
    dom = z3.Or([name_i == NIDX[n] for n in DOM])
    L, A = let_t(name_i), alt_t(name_i)
    cex = []

    def decode(m, iname):
        return {'name': NAMES[m.eval(name_i, model_completion=True).as_long()],
                'octave': m.eval(octave, model_completion=True).as_long(), 'interval': iname,
                'up': bool(z3.is_true(m.eval(up, model_completion=True)))}

    for ii, iname in enumerate(INAMES):
        if ii % n != k:
            continue
        if iname not in tr.IntervalsByName:
            continue           # reported by C09.t
        raw = tr.IntervalsByName[iname]
        d, s = rp.interval_sizes(iname)
        sign = z3.If(up, 1, -1)
        D = 7 * octave + L + sign * d
        S = 12 * octave + base_t(L) + A + sign * s
        L2, O2 = D % 7, D / 7
        A2 = S - (12 * O2 + base_t(L2))
        try:
            out = transposed(name_i, octave, z3.IntVal(raw), up)
        except pz.Unsupported as e:
            q.unsupported(f'to_transposed/get_chroma: {e}')
            break
        gn, go = out['name'], out['octave']
        spellable = z3.And(A2 >= -2, A2 <= 2)
        # (1) exact arithmetic where spellable; KeyError only where not spellable
        goal1 = z3.Implies(spellable, z3.And(gn != MISSING, let_t(gn) == L2, alt_t(gn) == A2, go == O2))
        r, m = q.valid(f'{iname}: letter+diatonic size, semitones+semitone size, all names(|alt|<=2), all integer octaves, both directions',
                       [dom], goal1, model_vars=[name_i, octave, up])
        if r == 'sat':
            cex.append({'args': decode(m, iname), 'message': f'{iname}: transposed pitch differs from the letter/semitone model'})
        # (2) inverse law whenever the forward result is in the table
        back = transposed(gn, go, z3.IntVal(raw), z3.Not(up))
        goal2 = z3.Implies(gn != MISSING, z3.And(back['name'] == name_i, back['octave'] == octave))
        r, m = q.valid(f'{iname}: transposing back restores the spelling', [dom], goal2, model_vars=[name_i, octave, up])
        if r == 'sat':
            cex.append({'args': decode(m, iname), 'message': f'{iname}: back-transposition does not restore the pitch'})
        if iname == 'P1':
            r, m = q.valid('P1 is the identity', [dom], z3.And(gn == name_i, go == octave), model_vars=[name_i, octave, up])
            if r == 'sat':
                cex.append({'args': decode(m, iname), 'message': 'P1 is not the identity'})
        if iname == 'octave':
            r, m = q.valid('octave keeps the name and moves the octave by one', [dom],
                           z3.And(gn == name_i, go == octave + z3.If(up, 1, -1)), model_vars=[name_i, octave, up])
            if r == 'sat':
                cex.append({'args': decode(m, iname), 'message': 'octave law'})
        if iname == 'P4' and 'P5' in tr.IntervalsByName:
            two = transposed(gn, go, z3.IntVal(tr.IntervalsByName['P5']), up)
            r, m = q.valid('P5 after P4 equals an octave (where the intermediate is spellable)', [dom, spellable],
                           z3.And(two['name'] == name_i, two['octave'] == octave + z3.If(up, 1, -1)), model_vars=[name_i, octave, up])
            if r == 'sat':
                cex.append({'args': decode(m, iname), 'message': 'P5(P4(p)) != octave(p)'})
    # translator validation against the real functions (tests' style points + seeded random points)
    rnd = random.Random(ctx.SEED + 9)
    bad = 0
    n_pts = 0
    pts = [('C', 4, 'P5', True), ('F+', 3, 'm3', False), ('B-', 2, 'A4', True), ('E--', -3, 'dd7', False), ('G++', 11, 'AA2', True)]
    for _ in range(200 // n + 1):
        pts.append((rnd.choice(DOM), rnd.randint(-30, 30), rnd.choice([n for n in INAMES if n in tr.IntervalsByName]), rnd.random() < 0.5))
    for nm, o, iname, u in (pts if q.unknown == 0 else []):
        n_pts += 1
        out = transposed(z3.IntVal(NIDX[nm]), z3.IntVal(o), z3.IntVal(tr.IntervalsByName[iname]), z3.BoolVal(u))
        tn = z3.simplify(out['name']).as_long()
        to = z3.simplify(out['octave']).as_long()
        try:
            real = pm.AgnosticPitch.to_transposed(pm.AgnosticPitch(nm, o), tr.IntervalsByName[iname], _dir(u))
            ok = tn >= 0 and (NAMES[tn], to) == (real.name, real.octave)
        except KeyError:
            ok = tn == -1
        bad += 0 if ok else 1
    for nm in NAMES:                            # constructor stub: name setter is the identity on table names
        if pm.AgnosticPitch(nm, 0).name != nm:
            bad += 1
    res = q.result(functions=[pz.qualname(pm.AgnosticPitch.get_chroma), pz.qualname(pm.AgnosticPitch.to_transposed)],
                   tables=['Chromas', 'ChromasByValue', 'IntervalsByName (live objects)'], validated_points=n_pts - bad,
                   notes='octave is an unbounded mathematical integer; a missing ChromasByValue key (KeyError) is the distinguished value -1; '
                         'AgnosticPitch(...) is a record (name setter validated as identity on the 39 table names)')
    if bad:
        res['harness_error'] = f'translator validation failed on {bad} points'
    res['cex'] = cex
    return res


def _desc_b(letter, alt, octave, iv, up):
    octs = ctx.pick((0, 3, 4, 8), (0, 1, 2, 3, 4, 5, 6, 7, 8))
    return {'pitch': rp.humdrum(letter, ALTS[alt + 2], octs[octave]), 'interval': INAMES[iv], 'direction': _dir(up)}


UNTRACE = [('kernpy.core.transposer', 'transpose')]

# ------------------------------------------------------------------ C09.e histories that start OUTSIDE the domain
# legal calls whose pitch or result lies outside the property's domain (three accidentals, extreme octaves, spellings that raise):
# whatever they return or raise, they must not change the answer of a later in-domain transposition
PRELUDES = (None, ('e###', 'A1', 'up'), ('FF---', 'm2', 'down'), ('c###', 'P5', 'up'), ('BB---', 'M3', 'down'), ('b###', 'P1', 'up'),
            ('g##', 'AA4', 'up'), ('D--', 'dd5', 'down'), ('ccccccccc', 'M7', 'up'), ('CCCCCCCCC-', 'octave', 'down'))


def ob_e(pre: int, letter: int, alt: int, iv: int, up: bool) -> bool:
    npre = ctx.pick(6, len(PRELUDES))
    assume(0 <= pre < npre and 0 <= letter < 7 and -2 <= alt <= 2 and 0 <= iv < NI)
    if not ctx.thorough():
        assume(up == (iv % 2 == 0))          # quick: one direction per interval, alternating
    return _e_body(choose(pre, npre), choose(letter, 7), choose(alt + 2, 5) - 2, choose(iv, NI), bool(up))


@native
def _e_body(pre, letter, alt, iv, up):
    if PRELUDES[pre] is not None:
        sp, iname, direction = PRELUDES[pre]
        try:
            kp.transpose(sp, kp.IntervalsByName[iname], direction=direction)
        except Exception:
            pass
        for nm in ('C+++', 'F---', 'E+++', 'B+++', 'C---', 'G---'):        # the pitch model itself asked about a name outside the table
            try:
                kp.AgnosticPitch(nm, 4).get_chroma()
            except Exception:
                pass
    return _b_body(letter, alt, 4, iv, up)


OBLIGATIONS = [
    Ob(id='C09.e', fn=ob_e, title='histories that start outside the domain: a call with three accidentals / an extreme octave first, then the in-domain grid',
       shard_of=lambda pre, letter, alt, iv, up: iv, shards={'quick': 16, 'thorough': 16}, budget_s={'quick': 170, 'thorough': 900}, native_body=True,
       witnesses=[{'pre': 1, 'letter': 2, 'alt': 1, 'iv': 4, 'up': True}], min_confirmed=2000,
       enumerated='first call (10, incl. none), letter, alteration, interval, direction (octave 4)',
       bounds={'quick': '6 first calls x 7 x 5 x 40 intervals (one direction each, alternating) = 8 400 two-step histories', 'thorough': '10 x 7 x 5 x 40 x 2 = 28 000'}),
    Ob(id='C09.t', engine='E2', fn=fn_tables, run=run_tables, title='live table sanity (inverse tables, the 40 names, each value = chroma(target) - chroma(C4))',
       symbolic='-', bounds={'quick': 'whole tables', 'thorough': 'whole tables'}),
    Ob(id='C09.a', engine='E2', fn=fn_a, run=run_a, title='arithmetic core for every integer octave (AST -> z3)',
       symbolic='pitch name over the table (|alt|<=2), octave in Z, direction; one query group per interval',
       bounds={'quick': 'unbounded octave; 35 names x 40 intervals x 2 directions', 'thorough': 'same, re-decided by z3 4.8.12 and cvc5 1.0.3'},
       shards={'quick': 14, 'thorough': 14}, budget_s={'quick': 600, 'thorough': 3000}),
    Ob(id='C09.b', fn=ob_b, title='kernpy.transpose end to end on the spelling grid, inverse law',
       shard_of=lambda letter, alt, octave, iv, up: iv, shards={'quick': 16, 'thorough': 16},
       budget_s={'quick': 170, 'thorough': 900}, 
       witnesses=[{'letter': 0, 'alt': 0, 'octave': 2, 'iv': 5, 'up': True}], min_confirmed=2000,
       symbolic='-', enumerated='letter, alteration, octave, interval, direction selectors (each path one concrete call)',
       bounds={'quick': '7 letters x 5 alterations x octaves {0,3,4,8} x 40 intervals x 2 directions = 11 200',
               'thorough': '7 x 5 x octaves 0..8 x 40 x 2 = 25 200'}, describe=_desc_b),
    Ob(id='C09.d', fn=ob_d, title='histories on one pitch object (octave / name reassigned between transpositions)',
       shard_of=lambda letter, alt, o1, o2, iv, up: iv, shards={'quick': 16, 'thorough': 16}, budget_s={'quick': 170, 'thorough': 1800},
       witnesses=[{'letter': 0, 'alt': 0, 'o1': 4, 'o2': 5, 'iv': 20, 'up': True}], min_confirmed=2000,
       enumerated='letter, alteration, two octaves, interval, direction',
       bounds={'quick': '7 x 5 x octave pairs from {2,4,5} x 40 x 2', 'thorough': '7 x 5 x 9 x 9 x 40 x 2'}),
    Ob(id='C09.c', fn=ob_laws, title='identity, octave and fourth+fifth laws through the public API',
       shard_of=lambda letter, alt, octave, up: letter, shards={'quick': 7, 'thorough': 7},
       budget_s={'quick': 120, 'thorough': 300},
       witnesses=[{'letter': 3, 'alt': 1, 'octave': 4, 'up': False}], min_confirmed=300,
       enumerated='letter, alteration, octave, direction',
       bounds={'quick': '7 x 5 x octaves 0..8 x 2', 'thorough': 'same'}),
]
