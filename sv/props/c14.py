"""C14  The read-only API is pure and history-independent.

Anchors: Generic.export/create/parse_options_to_ExportOptions (fresh Exporter/Importer/ExportOptions
per call), TokensTraversal / MetacommentsTraversal (collect, never write), ExportOptions.__init__
(deepcopy(HEADERS)), BEKERN_CATEGORIES.
Inductive-step formulation: the states reachable by read-only calls are the imported states iff no
such call changes the state (frame lemma C14.a); C14.b cross-checks the induction on two-step
histories, C14.c compares two imports.
"""
import copy
import os
import re
import tempfile

from sv.engine import ctx
from sv.engine.ob import Ob
from sv.engine.xh import SENTINEL, assume, check, choose, concrete, native
from sv.ref import docs
from sv.ref.snap import snap, snap_globals, diff

import kernpy as kp
from kernpy.core.tokens import TokenCategory as TC

META = {
    'outside': ['histories longer than two calls are covered by the induction step, not by enumeration', 'to_transposed (C15)',
                'documents outside the pool'],
    'assumptions': ['deep structural snapshot (nodes, tokens, sub-tokens, parent/children/header/operator links, signature maps, measure index, '
                    'module-level tables and defaults) is the observable state'],
}

TEXTS = []
N_SHORT = 5      # the short documents; TEXTS[5] is the long score (frame lemma and two-imports obligations only)


def load(tier):
    global TEXTS
    P = docs.pool()
    from sv.ref import longdoc
    TEXTS = [P[0].text(), P[2].text(), P[4].text(),
             '**kern\t**kern\n4c\t4e\n*clefG2\t*\n=1\t=1\n4d#\t4f\n*M4/4\t*\n=2\t=2\n2g\t2b\n*-\t*-\n',     # notes before the first clef, unequal signatures
             # both spines carry signatures, but not the same number: every export that starts after measure 1 raises ('Node signature
             # mismatch') half-way through -- and must raise in the same way every time it is asked
             '**kern\t**kern\n*clefG2\t*clefF4\n*M4/4\t*\n=1\t=1\n4c\t4C\n=2\t=2\n4d\t4D\n=3\t=3\n4e\t4E\n*-\t*-\n',
             longdoc.long_doc(ctx.pick(260, 1200), True, 100).text()]      # a long score (C14.a / C14.c only in the quick tier)


ENC = list(kp.Encoding)
ENC6 = (kp.Encoding.normalizedKern, kp.Encoding.eKern, kp.Encoding.bKern, kp.Encoding.bEkern, kp.Encoding.agnosticKern, kp.Encoding.agnosticExtendedKern)


def _cat_args():
    # fresh containers on every call so that a callee growing them is visible; index 0 is the shared module-level default set
    return [kp.BEKERN_CATEGORIES, {TC.CORE}, [TC.NOTE_REST, TC.BARLINES], (TC.SIGNATURES,), {TC.CORE, TC.STRUCTURAL, TC.SIGNATURES, TC.BARLINES}, TC.DURATION]


def _norm_tokens(ts):
    return [(t.encoding, t.category.name, type(t).__name__) for t in ts]


def _graph(doc):
    fd, path = tempfile.mkstemp(suffix='.dot', dir=os.environ.get('VERIF_TMP'))
    os.close(fd)
    try:
        kp.graph(doc, path)
        with open(path) as f:
            txt = f.read()
    finally:
        os.unlink(path)
    ids = {}

    def sub(m):
        return m.group(1) + str(ids.setdefault(m.group(0), len(ids)))
    return re.sub(r'(node|#)\d+', sub, txt)


# operation kinds: name, number of parameter values, runner(doc, p) -> comparable result
OPS = [
    ('dumps()', 1, lambda doc, p: kp.dumps(doc)),
    ('dumps(encoding)', 6, lambda doc, p: kp.dumps(doc, encoding=ENC6[p])),
    ('dumps(include)', 6, lambda doc, p: kp.dumps(doc, include=_cat_args()[p], encoding=kp.Encoding.eKern)),
    ('dumps(exclude)', 6, lambda doc, p: kp.dumps(doc, exclude=_cat_args()[p])),
    ('dumps(spine_ids)', 4, lambda doc, p: kp.dumps(doc, spine_ids=([0], [1], [], [0, 1, 7])[p])),
    ('dumps(spine_types)', 3, lambda doc, p: kp.dumps(doc, spine_types=(['**kern'], ['**text', '**fing'], [])[p])),
    ('dumps(range)', 6, lambda doc, p: kp.dumps(doc, from_measure=(1, 2, 0, -1, 3, 1)[p], to_measure=(1, 2, 1, 1, 2, 99)[p])),
    ('export(BEKERN options)', 1, lambda doc, p: kp.export(doc, kp.ExportOptions(token_categories=kp.BEKERN_CATEGORIES, kern_type=kp.Encoding.eKern))),
    ('get_all_tokens', 6, lambda doc, p: _norm_tokens(doc.get_all_tokens(filter_by_categories=(None, *_cat_args()[1:])[p]))),
    ('get_unique_tokens', 6, lambda doc, p: _norm_tokens(doc.get_unique_tokens(filter_by_categories=(None, *_cat_args()[1:])[p]))),
    ('get_all_tokens_encodings', 2, lambda doc, p: doc.get_all_tokens_encodings(filter_by_categories=(None, [TC.CORE])[p])),
    ('get_unique_token_encodings', 2, lambda doc, p: doc.get_unique_token_encodings(filter_by_categories=(None, {TC.SIGNATURES})[p])),
    ('frequencies', 3, lambda doc, p: sorted(doc.frequencies(token_categories=(None, [TC.CORE], {TC.BARLINES, TC.LYRICS})[p]).items())),
    ('frequencies key order', 1, lambda doc, p: list(doc.frequencies())),
    ('get_metacomments', 4, lambda doc, p: doc.get_metacomments(KeyComment=(None, 'COM', 'zzz', 'end')[p], clear=p % 2 == 1)),
    ('spine_types', 4, lambda doc, p: kp.spine_types(doc, headers=(None, ['**kern'], [], ['**text', '**kern'])[p])),
    ('is_monophonic', 1, lambda doc, p: kp.is_monophonic(doc)),
    ('list(doc)', 1, lambda doc, p: list(doc)),
    ('measures_count', 1, lambda doc, p: doc.measures_count()),
    ('get_first_measure', 1, lambda doc, p: doc.get_first_measure()),
    ('get_spine_ids', 1, lambda doc, p: doc.get_spine_ids()),
    ('graph', 1, lambda doc, p: _graph(doc)),
    ('clone+dumps', 1, lambda doc, p: kp.dumps(doc.clone())),
    ('dumps(up to the last measure)', 2, lambda doc, p: kp.dumps(doc, from_measure=(1, doc.measures_count())[p], to_measure=doc.measures_count())),
    ('dumps(from_measure only)', 2, lambda doc, p: kp.dumps(doc, from_measure=(1, 2)[p], encoding=kp.Encoding.eKern)),
    ('get_all_tokens(empty filter)', 3, lambda doc, p: _norm_tokens(doc.get_all_tokens(filter_by_categories=([], (), set())[p]))),
    ('get_unique_tokens(empty filter)', 2, lambda doc, p: _norm_tokens(doc.get_unique_tokens(filter_by_categories=([], set())[p]))),
    ('frequencies(empty filter)', 1, lambda doc, p: sorted(doc.frequencies(token_categories=[]).items())),
    ('one Exporter object reused', 4, lambda doc, p: _exporter_reuse(doc, p)),
    ('iteration left early', 4, lambda doc, p: _partial_iteration(doc, p)),
]


def _partial_iteration(doc, p):
    """Loops over the document that are NOT run to the end: a peek, a break, an exception in the body, two interleaved iterators.
    The iteration is left abandoned: what a LATER call sees is the subject (C14.a repeats the operation on the same document,
    C14.b runs every observer after it)."""
    if p == 0:
        return next(iter(doc))
    if p == 1:
        seen = []
        for m in doc:
            seen.append(m)
            break
        return seen
    if p == 2:
        try:
            for m in doc:
                raise KeyError(m)
        except KeyError as e:
            return e.args[0]
    a, b = iter(doc), iter(doc)
    return (next(a), next(b))


def _exporter_reuse(doc, p):
    """kp.Exporter is public: one object used for several exports / queries must answer like fresh ones."""
    e = kp.Exporter()
    EO = kp.ExportOptions
    if p == 0:
        a = e.get_spine_types(doc)
        b = e.export_string(doc, EO())
        return (a, b, b == kp.dumps(doc))
    if p == 1:
        a = e.export_string(doc, EO(kern_type=kp.Encoding.eKern))
        b = e.export_string(doc, EO(kern_type=kp.Encoding.eKern, token_categories=TC.valid(exclude=[TC.DECORATION])))
        return (a, b, b == kp.dumps(doc, encoding=kp.Encoding.eKern, exclude=[TC.DECORATION]))
    if p == 2:
        a = e.export_string(doc, EO(token_categories=TC.valid(include=[TC.BARLINES, TC.STRUCTURAL])))
        b = e.export_string(doc, EO())
        return (a, b, b == kp.dumps(doc))
    a = e.export_string(doc, EO(spine_ids=[0], kern_type=kp.Encoding.bEkern))
    b = e.export_string(doc, EO(kern_type=kp.Encoding.bEkern))
    return (a, b, b == kp.dumps(doc, encoding=kp.Encoding.bEkern))
INST = [(i, p) for i, (_, n, _) in enumerate(OPS) for p in range(n)]      # all operation instances
# observers of the two-step histories in the quick tier: first and last parameter value of every kind + every encoding
OBS = [k for k, (i, p) in enumerate(INST) if p in (0, OPS[i][1] - 1) or OPS[i][0] == 'dumps(encoding)']
B_DOCS = (0, 1, 3)          # quick: two pool documents + the document with notes before the first clef (exports that raise half-way)


def run(inst, doc):
    i, p = INST[inst]
    try:
        return ('ok', OPS[i][2](doc, p))
    except Exception as e:
        return ('raises', type(e).__name__)


def _name(inst):
    i, p = INST[inst]
    return f'{OPS[i][0]}#{p}'


@native
def _fresh(d):
    return kp.loads(TEXTS[d])[0]


# ------------------------------------------------------------------ C14.a frame lemma
def ob_a(d: int, op: int) -> bool:
    assume(0 <= d < len(TEXTS) and 0 <= op < len(INST))
    return _a_body(choose(d, len(TEXTS)), choose(op, len(INST)))


@native
def _a_body(d, inst):
    r0 = run(inst, _fresh(d))               # reference taken BEFORE the call under test (a call may poison the whole process)
    doc = _fresh(d)
    before, g0 = snap(doc), snap_globals()
    args0 = copy.deepcopy(_cat_args()[1:])
    r = run(inst, doc)
    check(r == r0, f'{_name(inst)}: two fresh imports give different results: {str(r)[:200]!r} vs {str(r0)[:200]!r}')
    after, g1 = snap(doc), snap_globals()
    check(after == before, f'{_name(inst)} changed the document: {diff(before, after)}')
    check(g1 == g0, f'{_name(inst)} changed module-level state: {diff(g0, g1)}')
    if OPS[INST[inst][0]][0] == 'one Exporter object reused' and r[0] == 'ok':
        check(r[1][2] is True, f'{_name(inst)}: the second export of a re-used Exporter object differs from a fresh export: {str(r[1][1])[:300]!r}')
    r2 = run(inst, _fresh(d))
    check(r == r2, f'{_name(inst)}: result on the used document {str(r)[:300]!r} differs from a freshly imported copy {str(r2)[:300]!r}')
    r3 = run(inst, doc)
    check(r3 == r, f'{_name(inst)} twice on the same document gives different results')
    return True


def ob_a2(d: int, a: int, b: int) -> bool:
    """dumps with arbitrary integer from_measure / to_measure (including values that raise) leaves the document untouched."""
    assume(0 <= d < N_SHORT)
    di = choose(d, N_SHORT)
    doc = _fresh(di)
    before = _snap(doc)
    try:
        r = ('ok', kp.dumps(doc, from_measure=a, to_measure=b))
        check(SENTINEL not in r[1], 'tripwire: sentinel in exported text')
    except Exception as e:
        r = ('raises', type(e).__name__)
    after = _snap(doc)
    check(after == before, lambda: f'dumps(from_measure={concrete(a)}, to_measure={concrete(b)}) changed the document: {diff(before, after)}')
    # the same call on a fresh copy, still with the symbolic range (no realisation: one path per class of ranges)
    fresh = _fresh(di)
    try:
        r2 = ('ok', kp.dumps(fresh, from_measure=a, to_measure=b))
    except Exception as e:
        r2 = ('raises', type(e).__name__)
    check(r == r2, lambda: f'dumps(from_measure={concrete(a)}, to_measure={concrete(b)}) on a used document differs from a fresh copy')
    r3 = ('ok', kp.dumps(doc)) if True else None
    check(r3 == ('ok', _plain(di)), 'the default export changed after a ranged export')
    return True


_PLAIN = {}


@native
def _plain(di):
    if di not in _PLAIN:
        _PLAIN[di] = kp.dumps(_fresh(di))
    return _PLAIN[di]


@native
def _snap(doc):
    return (snap(doc), snap_globals())


@native
def _dumps_range(di, a, b):
    try:
        return ('ok', kp.dumps(_fresh(di), from_measure=a, to_measure=b))
    except Exception as e:
        return ('raises', type(e).__name__)


# ------------------------------------------------------------------ C14.b two-step histories
def ob_b(d: int, o1: int, o2: int) -> bool:
    nd = ctx.pick(len(B_DOCS), N_SHORT)
    n2 = ctx.pick(len(OBS), len(INST))
    assume(0 <= d < nd and 0 <= o1 < len(INST) and 0 <= o2 < n2)
    return _b_body(choose(d, nd), choose(o1, len(INST)), choose(o2, n2))


_REF = {}


@native
def _b_body(d, i1, i2):
    if not ctx.thorough():
        d, i2 = B_DOCS[d], OBS[i2]
    if (d, i2) not in _REF:
        _REF[d, i2] = run(i2, _fresh(d))     # reference taken BEFORE the first operation (once per process, on a fresh import)
    ref = _REF[d, i2]
    doc = _fresh(d)
    run(i1, doc)
    r = run(i2, doc)
    check(r == ref, f'{_name(i2)} after {_name(i1)}: {str(r)[:300]!r}, alone on a fresh import (before): {str(ref)[:300]!r}')
    r2 = run(i2, _fresh(d))
    check(r2 == ref, f'{_name(i2)} on a fresh import AFTER {_name(i1)} ran on another document: {str(r2)[:300]!r}, before: {str(ref)[:300]!r}')
    return True


# ------------------------------------------------------------------ C14.c two imports are indistinguishable
def ob_c(d: int, op: int) -> bool:
    assume(0 <= d < len(TEXTS) and 0 <= op < len(INST))
    return _c_body(choose(d, len(TEXTS)), choose(op, len(INST)))


@native
def _c_body(d, inst):
    a, ea = kp.loads(TEXTS[d])
    b, eb = kp.loads(TEXTS[d])
    check(snap(a) == snap(b) and len(ea) == len(eb), f'two imports of the same text differ: {diff(snap(a), snap(b))}')
    check(run(inst, a) == run(inst, b), f'{_name(inst)} distinguishes two imports of the same text')
    return True


UNTRACE = [('kernpy.core.exporter', 'Exporter.append_row'), ('kernpy.core.exporter', 'Exporter.export_token'),
           ('kernpy.core.tokens', 'TokenCategoryHierarchyMapper.valid')]

OBLIGATIONS = [
    Ob(id='C14.a', fn=ob_a, title='frame lemma: no read-only operation changes the document, module-level state or its arguments; result == fresh copy',
       shard_of=lambda d, op: op, shards={'quick': 16, 'thorough': 16}, budget_s={'quick': 170, 'thorough': 900}, native_body=True,
       witnesses=[{'d': 0, 'op': 0}], min_confirmed=150, enumerated='document, operation instance (%d instances of %d kinds, incl. calls that raise)' % (len(INST), len(OPS)),
       bounds={'quick': '3 pool documents + 1 document with notes before the first clef + a long score (260 data rows; thorough 1200) x every operation instance', 'thorough': 'same'}),
    Ob(id='C14.a2', fn=ob_a2, title='frame lemma for dumps with arbitrary integer measure range (also when it raises)',
       shard_of=lambda d, a, b: d, shards={'quick': 3, 'thorough': 3}, budget_s={'quick': 150, 'thorough': 600}, opaque_numbers=True, untrace=UNTRACE,
       witnesses=[{'d': 0, 'a': 1, 'b': 2}, {'d': 1, 'a': -5, 'b': 0}], min_confirmed=15,
       symbolic='from_measure, to_measure: unbounded integers', enumerated='document',
       assumptions=['symbolic numbers are rendered opaquely inside error messages (tripwire-guarded)'],
       bounds={'quick': '3 pool documents', 'thorough': 'same'}),
    Ob(id='C14.b', fn=ob_b, title='two-step histories: the second result equals the second operation alone on a fresh import',
       shard_of=lambda d, o1, o2: o1, shards={'quick': 16, 'thorough': 16}, budget_s={'quick': 170, 'thorough': 1800},
       witnesses=[{'d': 0, 'o1': 3, 'o2': 0}, {'d': 2, 'o1': 5, 'o2': 0}], min_confirmed=3000, native_body=True,
       enumerated='document, ordered pair of operation instances',
       bounds={'quick': '3 documents (one with notes before the first clef and unequal signatures, where exports raise half-way) x all %d first operations x %d observers '
                        '(first and last parameter value of each kind, every encoding)' % (len(INST), len(OBS)),
               'thorough': '4 documents x all ordered pairs of the %d operation instances' % len(INST)}),
    Ob(id='C14.c', fn=ob_c, title='two imports of the same text are indistinguishable (snapshot and every operation)',
       shard_of=lambda d, op: op, shards={'quick': 8, 'thorough': 8}, budget_s={'quick': 170, 'thorough': 900}, native_body=True,
       witnesses=[{'d': 0, 'op': 0}], min_confirmed=150, enumerated='document, operation instance', bounds={'quick': '5 documents (incl. the long score) x all instances', 'thorough': 'same'}),
]
