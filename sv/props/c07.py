"""C07  Measure ranges partition the score.

Anchors: Importer.run (measure index), Exporter.export_string (from_stage/to_stage),
Exporter.export_options_validator, Document.__iter__/measures_count/get_first_measure.
from_measure / to_measure are unbounded symbolic integers; score shapes are
solver-enumerated selectors.  Oracle: sv/ref/measures.py (text-level measure model).
"""
import itertools

from sv.engine import ctx
from sv.engine.ob import Ob
from sv.engine.xh import SENTINEL, assume, check, choose, concrete, native
from sv.ref import measures as rm

import kernpy as kp

META = {
    'outside': ['more than 3 (quick) / 5 (thorough) measures, more than 2 data rows per measure, more than 2 **kern spines',
                'null cells (* or .) before the first barline: kernpy opens a measure there (EMPTY is a child of CORE); the property does not say whether it should',
                'from_measure = 0 (kernpy treats it as "from the start"; the property\'s domain starts at 1): only required not to be mistaken for an error'],
    'assumptions': ['signatures precede the first measure (mid-score changes are C08\'s)'],
}


def _shapes(tier):
    maxM = 3 if tier == 'quick' else 4
    out = []
    if tier == 'quick':
        # M<=2: everything; M=3: 0..1 data rows per measure, spine variant rotating with the shape
        n = 0
        for M in (1, 2, 3):
            for lens in itertools.product((0, 1, 2) if M <= 2 else (0, 1), repeat=M):
                for opening in (0, 1):
                    for pickup in (0, 1):
                        for final in (0, 1):
                            variants = ((1, 0), (2, 0), (1, 1))
                            for ks, ts in (variants if M <= 2 else (variants[n % 3],)):
                                out.append((M, tuple(lens), opening, pickup, final, ks, ts))
                            n += 1
        # the first data cell of the score as chord / rest / decorated note (what opens a measure without an opening barline)
        for M in (1, 2):
            for lens in ((1,), (0,), (1, 1), (0, 1)):
                if len(lens) != M:
                    continue
                for opening in (0, 1):
                    for pickup in (0, 1):
                        for final in (0, 1):
                            for fk, ks in ((1, 1), (1, 2), (2, 1), (3, 1)):
                                out.append((M, tuple(lens), opening, pickup, final, ks, 0, fk))
        # blank lines inside the text (after the header block / in front of every barline): stages and text lines drift apart
        for M in (2, 3):
            for lens in ((1,) * M, (2, 0, 1)[:M]):
                for opening in (0, 1):
                    for pickup in (0, 1):
                        for final in (0, 1):
                            for bl in (1, 2, 3, 4, 12, 16, 32, 64):       # 16 / 32: invisible barlines (=2-) inside the score; 64: ties across the barlines
                                out.append((M, tuple(lens), opening, pickup, final, 1 + (bl in (2, 4)), 0, 0, bl))
        return out
    for M in range(1, maxM + 1):
        lens_opts = itertools.product((0, 1, 2), repeat=M) if (tier == 'quick' or M <= 3) else itertools.product((0, 1), repeat=M)
        for lens in lens_opts:
            for opening in (0, 1):
                for pickup in ((0, 1) if tier == 'quick' else (0, 1, 2)):
                    for final in (0, 1):
                        for ks, ts in ((1, 0), (2, 0), (1, 1)) + (((2, 1),) if tier != 'quick' else ()):
                            out.append((M, tuple(lens), opening, pickup, final, ks, ts, 0, 0))
                            if M <= 2 and ts == 0:
                                for fk in (1, 2, 3):
                                    out.append((M, tuple(lens), opening, pickup, final, ks, ts, fk, 0))
                            if M <= 3 and (ks, ts) == (1, 0) and sum(lens) <= 3:
                                for bl in (1, 2, 3, 4, 12, 16, 32, 64):
                                    out.append((M, tuple(lens), opening, pickup, final, ks, ts, 0, bl))
    return out


SHAPES = []
_CACHE = {}


def load(tier):
    global SHAPES
    SHAPES = _shapes(tier)
    # witness points that exist in both tiers: the first shape with two measures, an opening barline and a final barline
    w = next(i for i, sh in enumerate(SHAPES) if sh[0] == 2 and sh[2] == 1 and sh[4] == 1 and sum(sh[1]) >= 2)
    for ob in OBLIGATIONS:
        if ob.id == 'C07.a':
            ob.witnesses = [{'shape': w, 'a': 1, 'b': 1}, {'shape': w, 'a': -3, 'b': 1}]
        elif ob.id == 'C07.b':
            ob.witnesses = [{'shape': w}]


@native
def get_doc(i):
    if i not in _CACHE:
        sh = SHAPES[i]
        sc = rm.build(*sh)
        doc, errs = kp.loads(sc.text)
        _CACHE[i] = (sc, doc, list(errs), rm.measure_starts(sc), sh)
    return _CACHE[i]


@native
def _expected(sc, a, b, keep):
    return rm.expected_range(sc, a, b, keep)


def ob_a(shape: int, a: int, b: int) -> bool:
    assume(0 <= shape < len(SHAPES))
    sc, doc, errs, starts, sh = get_doc(choose(shape, len(SHAPES)))
    M = len(starts)
    assume(M >= 1)
    check(not errs, f'import reported errors: {errs}')
    check(doc.measures_count() == M, lambda: f'measures_count() = {doc.measures_count()}, the text has {M} measure starts')
    ks, ts = sh[5], sh[6]
    kw = {'spine_types': ['**kern']} if ts else {}
    try:
        out = kp.dumps(doc, from_measure=a, to_measure=b, **kw)
    except ValueError:
        check(a < 0 or b > M or b < a, lambda: f'ValueError for a valid range from_measure={concrete(a)} to_measure={concrete(b)} (M={M})')
        return True
    check(not (a < 0 or b > M or b < a), lambda: f'out-of-range pair from_measure={concrete(a)} to_measure={concrete(b)} (M={M}) was not rejected with ValueError')
    if a == 0:
        return True        # outside the property's domain (recorded in META)
    check(SENTINEL not in out, 'tripwire: opaque number sentinel reached exported text')
    ac, bc = concrete(a), concrete(b)
    exp = _expected(sc, ac, bc, list(range(ks)))
    got = rm.parse(concrete(out))
    check(got == exp, lambda: f'from_measure={ac} to_measure={bc}: exported {got}, expected {exp}')
    return True


# ------------------------------------------------------------------ C07.d the range validator for EVERY measure count
class _StubScore:
    """Only what Exporter.export_options_validator reads: the table of measure starts (its length is the measure count)."""
    def __init__(self, starts):
        self.measure_start_tree_stages = starts

    def measures_count(self):
        return len(self.measure_start_tree_stages)

    def get_first_measure(self):
        return 1


def ob_d(starts: list, a: int, b: int, a_none: bool, b_none: bool) -> bool:
    """Exporter.export_options_validator on a score with ANY number of measures M (the length of a symbolic list) and any integer
    pair, either of which may be omitted: it raises ValueError exactly for a negative start, an end beyond M, or an end before the
    start -- and for nothing else (no clamping, no other exception)."""
    from kernpy.core.exporter import Exporter, ExportOptions
    M = len(starts)
    fa = None if a_none else a
    fb = None if b_none else b
    opts = ExportOptions(from_measure=fa, to_measure=fb)
    bad = (fa is not None and fa < 0) or (fb is not None and fb > M) or (fa is not None and fb is not None and fb < fa)
    try:
        Exporter.export_options_validator(_StubScore(starts), opts)
    except AttributeError:
        from crosshair.util import IgnoreAttempt
        raise IgnoreAttempt('the validator reads more of the document than the stub offers')      # inconclusive, never an alarm
    except ValueError:
        check(bad, lambda: f'ValueError for the valid range from_measure={concrete(fa)} to_measure={concrete(fb)} on a score of {concrete(M)} measures')
        return True
    check(not bad, lambda: f'from_measure={concrete(fa)} to_measure={concrete(fb)} on a score of {concrete(M)} measures was not rejected with ValueError')
    check(opts.from_measure is fa or opts.from_measure == fa, 'the validator changed from_measure (clamping)')
    check(opts.to_measure is fb or opts.to_measure == fb, 'the validator changed to_measure (clamping)')
    return True


def ob_b(shape: int) -> bool:
    """Partition: the single-measure exports together contain every data line of the full export
    exactly once; iteration yields 1..M."""
    assume(0 <= shape < len(SHAPES))
    return _b_body(choose(shape, len(SHAPES)))


@native
def _b_body(i):
    sc, doc, errs, starts, sh = get_doc(i)
    M = len(starts)
    if M == 0:
        return True
    ks, ts = sh[5], sh[6]
    kw = {'spine_types': ['**kern']} if ts else {}
    check(list(doc) == list(range(1, M + 1)), f'list(doc) = {list(doc)}, expected 1..{M}')
    # iteration protocol: a loop left early, nested loops and a second pass all see 1..M again
    it = iter(doc)
    first = next(it)
    check(first == 1 and list(doc) == list(range(1, M + 1)), f'after one next(iter(doc)) a new loop yields {list(doc)}')
    check(list(zip(doc, doc)) == [(m, m) for m in range(1, M + 1)], f'zip(doc, doc) = {list(zip(doc, doc))}')
    check([m for m in doc] == list(range(1, M + 1)) and [m for m in doc] == list(range(1, M + 1)), 'two passes in a row differ')
    check(doc.measures_count() == M and doc.get_first_measure() == 1, 'measures_count / get_first_measure')
    full = rm.data_lines(rm.parse(kp.dumps(doc, **kw)))
    parts = []
    for m in range(1, M + 1):
        one = kp.dumps(doc, from_measure=m, to_measure=m, **kw)
        parts += rm.data_lines(rm.parse(one))
        # the same pair asked again and again from the same document gives the same text every time
        for n in (2, 3, 4):
            rep = kp.dumps(doc, from_measure=m, to_measure=m, **kw)
            check(rep == one, f'measure {m} exported for the {n}th time from the same document: {rep!r}, the first time {one!r}')
    check(sorted(map(tuple, parts)) == sorted(map(tuple, full)),
          f'single-measure exports give data lines {parts}, the full export has {full}')
    check(parts == full, f'single-measure exports are not in score order: {parts} vs {full}')
    # export options must not leak from one call into the next: after ranged exports a plain export is the full score again
    again = rm.data_lines(rm.parse(kp.dumps(doc, **kw)))
    check(again == full, f'a plain dumps after ranged exports gives data lines {again}, the first full export had {full}')
    # after those exports the document still has M measures and still rejects an end beyond M
    check(doc.measures_count() == M and list(doc) == list(range(1, M + 1)), f'after ranged exports: measures_count() = {doc.measures_count()}, list(doc) = {list(doc)}')
    for bad in ((1, M + 1), (M + 1, M + 1), (2, 1) if M >= 2 else (1, 0)):
        try:
            out = kp.dumps(doc, from_measure=bad[0], to_measure=bad[1], **kw)
        except ValueError:
            continue
        check(False, f'after ranged exports the out-of-range pair {bad} (M={M}) was accepted: {out!r}')
    try:
        again = rm.data_lines(rm.parse(kp.dumps(doc, **kw)))
    except ValueError as e:
        check(False, f'a plain dumps after a rejected range raises {e!r}')
    check(again == full, f'a plain dumps after rejected ranges gives data lines {again}, the first full export had {full}')
    if M >= 2:
        # half-open ranges after a full range: from_measure alone runs to the end, to_measure alone starts at the beginning
        kp.dumps(doc, from_measure=1, to_measure=1, **kw)
        tail = rm.data_lines(rm.parse(kp.dumps(doc, from_measure=2, **kw)))
        exp_tail = rm.data_lines(_expected(sc, 2, M, list(range(ks))))
        check(tail == exp_tail, f'from_measure=2 alone after a 1..1 export gives data lines {tail}, expected {exp_tail}')
        kp.dumps(doc, from_measure=M, to_measure=M, **kw)
        head = rm.data_lines(rm.parse(kp.dumps(doc, to_measure=1, **kw)))
        exp_head = rm.data_lines(_expected(sc, 1, 1, list(range(ks))))
        check(head == exp_head, f'to_measure=1 alone after an M..M export gives data lines {head}, expected {exp_head}')
    return True


LONG_M = (80, 320, 1000)


def _pairs(M):
    """In-range pairs near the start, the middle and the end of a long score, and the out-of-range pairs around them."""
    As = sorted({1, 2, 3, M // 2 - 1, M // 2, M // 2 + 1, M - 2, M - 1, M})
    out = []
    for a in As:
        for b in (a, a + 1, a + 2, M):
            if a <= b <= M and (a, b) not in out:
                out.append((a, b))
    out += [(-1, 3), (1, M + 1), (M, M + 1), (M + 1, M + 1), (M // 2, M // 2 - 1), (M, 1), (-2, -1), (0, M + 7)]
    return out


def ob_c(k: int, j: int) -> bool:
    """Long scores: M measures of 4 data rows; ranges far from the ends, at the ends, and the out-of-range pairs."""
    n = ctx.pick(2, 3)
    assume(0 <= k < n)
    kc = choose(k, n)
    np_ = _npairs(kc)
    assume(0 <= j < np_)
    return _c_body(kc, choose(j, np_))


@native
def _npairs(k):
    return len(_pairs(_long(k)[2]))


@native
def _c_body(k, j):
    sc, doc, M = _long(k)
    a, b = _pairs(M)[j]
    try:
        out = kp.dumps(doc, from_measure=a, to_measure=b)
    except ValueError:
        check(a < 0 or b > M or b < a, f'ValueError for a valid range from_measure={a} to_measure={b} (M={M})')
        return True
    check(not (a < 0 or b > M or b < a), f'out-of-range pair from_measure={a} to_measure={b} (M={M}) was not rejected with ValueError')
    exp = _expected(sc, a, b, [0])
    got = rm.parse(out)
    check(got == exp, f'M={M} from_measure={a} to_measure={b}: exported {len(got)} lines {got[:6]}..., expected {len(exp)} lines {exp[:6]}...')
    return True


_LONGS = {}


@native
def _long(k):
    if k not in _LONGS:
        M = LONG_M[k]
        sc = rm.build(M, (4,) * M, 1, 0, 1, 1, 0)
        doc, errs = kp.loads(sc.text)
        assert not errs
        _LONGS[k] = (sc, doc, len(rm.measure_starts(sc)))
    return _LONGS[k]


def _desc(shape, a=None, b=None):
    sh = SHAPES[shape]
    d = {'shape(M,lens,opening,pickup,final,kern_spines,text_spine[,first_kind[,blank_lines]])': list(sh), 'text': rm.build(*sh).text}
    if a is not None:
        d.update(from_measure=a, to_measure=b)
    return d


UNTRACE = [('kernpy.core.exporter', 'Exporter.append_row'), ('kernpy.core.exporter', 'Exporter.export_token'),
           ('kernpy.core.tokens', 'TokenCategoryHierarchyMapper.valid')]

OBLIGATIONS = [
    Ob(id='C07.d', fn=ob_d, title='the range validator accepts exactly 0 <= from <= to <= M, for every measure count M and every integer pair (either may be omitted)',
       budget_s={'quick': 120, 'thorough': 600}, opaque_numbers=True, stub_optional=True,
       stubs=['Document replaced by an object offering measure_start_tree_stages / measures_count() / get_first_measure() only (C07.d)'],
       witnesses=[{'starts': [1, 3, 5], 'a': 1, 'b': 3, 'a_none': False, 'b_none': False}, {'starts': [2], 'a': 0, 'b': 2, 'a_none': True, 'b_none': False}], min_confirmed=8,
       symbolic='measure-start table of symbolic length (M unbounded), from_measure, to_measure: unbounded integers, two "omitted" flags',
       bounds={'quick': 'every M (length of a symbolic list), every integer pair, each side given or omitted', 'thorough': 'same'},
       assumptions=['the validator reads the document only through len(document.measure_start_tree_stages) (a path on which it reads anything else fails on the stub and is reported as unknown)',
                    'symbolic numbers are rendered opaquely inside error messages']),
    Ob(id='C07.a', fn=ob_a, title='range export == measure model; out-of-range pairs rejected, for all integer pairs',
       shard_of=lambda shape, a, b: shape, shards={'quick': 16, 'thorough': 16},
       budget_s={'quick': 170, 'thorough': 2400}, opaque_numbers=True, untrace=UNTRACE,
       witnesses=[{'shape': 5, 'a': 1, 'b': 1}, {'shape': 40, 'a': -3, 'b': 1}], min_confirmed=300,
       symbolic='from_measure, to_measure: unbounded integers', enumerated='score shape selector',
       bounds={'quick': 'M<=2 barline-delimited measures x 0..2 data rows each (M=3: 0..1 rows, spine variant rotating) x opening barline x pickup 0..1 x final barline x {1 kern, 2 kern, kern+text}; + first data cell as chord / rest / decorated note (M<=2); + blank lines after the header block / in front of every barline',
               'thorough': 'M<=3 with 0..2 rows per measure, M=4 with 0..1 rows, pickup 0..2, + {2 kern + text}; first-cell kinds for M<=2; blank-line variants for M<=3'},
       assumptions=['symbolic numbers are rendered opaquely inside error messages (tripwire: the sentinel must not reach exported text; native re-runs use real formatting)'],
       describe=_desc),
    Ob(id='C07.c', fn=ob_c, title='long scores (80..1000 measures): ranges at the start, in the middle and at the end; out-of-range pairs rejected',
       shard_of=lambda k, j: j, shards={'quick': 4, 'thorough': 8}, budget_s={'quick': 150, 'thorough': 900}, native_body=True,
       witnesses=[{'k': 0, 'j': 0}, {'k': 1, 'j': 5}], min_confirmed=40,
       enumerated='score length, (from_measure, to_measure) pair from a window list',
       bounds={'quick': 'one-spine scores of 80 and 320 measures x 4 data rows (closing barline counted: M = 81 / 321) x about 40 pairs: a in the first / middle / last three measures, b in {a, a+1, a+2, M}, 8 out-of-range pairs',
               'thorough': '+ 1000 measures'}),
    Ob(id='C07.b', fn=ob_b, title='single-measure exports partition the data lines; iteration yields 1..M',
       shard_of=lambda shape: shape, shards={'quick': 8, 'thorough': 16}, budget_s={'quick': 120, 'thorough': 900},
       witnesses=[{'shape': 5}], min_confirmed=200, enumerated='score shape selector',
       bounds={'quick': 'same shapes as C07.a', 'thorough': 'same shapes as C07.a'}, describe=_desc),
]
