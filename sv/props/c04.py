"""C04  The six encodings are consistent views of one document.

Anchors: KernTokenizer, EkernTokenizer, BkernTokenizer, BekernTokenizer, AKernTokenizer,
AEKernTokenizer, TokenizerFactory.create (tokenizers.py); HeaderTokenGenerator.new,
Encoding.prefix (exporter.py); ChordToken.export (tokens.py).
"""
from sv.engine import ctx
from sv.engine.ob import Ob
from sv.engine.xh import assume, check, choose, concrete, native
from sv.ref import cells, docs

import kernpy as kp
from kernpy.core import tokens as tk
from kernpy.core.exporter import Exporter, ExportOptions, HeaderTokenGenerator
from kernpy.core.tokenizers import TokenizerFactory
from kernpy.core.tokens import TokenCategory as TC

ENC = (kp.Encoding.normalizedKern, kp.Encoding.eKern, kp.Encoding.bKern, kp.Encoding.bEkern, kp.Encoding.agnosticKern, kp.Encoding.agnosticExtendedKern)
ENC_NAMES = ('kern', 'ekern', 'bkern', 'bekern', 'akern', 'aekern')
PREFIX = {'kern': '', 'ekern': 'e', 'bkern': 'b', 'bekern': 'be', 'akern': 'a', 'aekern': 'ae'}
N = len(list(TC))
NAMES = [c.name for c in TC]

META = {
    'outside': ['sub-token texts longer than 2 characters in the symbolic tier; documents outside the pool',
                'WHICH agnostic pitch a note gets (C10); here only akern == aekern minus separators and identity of non-note cells'],
    'assumptions': ['sub-token texts do not themselves contain the two separator characters (open finding KF-C03-separator-chars)'],
}

POOL = []
_CACHE = {}


def _marks_doc():
    from sv.ref.cells import Bar, Chord, Doc, Header as H, Note, Null, Op, Rest
    from sv.ref.docs import sig, lyr
    return Doc([[H('**kern'), H('**text')], [sig('*clefG2', 'CLEF'), Null('*')], [Bar(number='1'), Bar(number='1')],
                [Note('16', mark='qq', pitch='d', acc='#', decs=((3, 'L'),)), lyr('la')], [Note('4', mark='P', pitch='e'), Null('.')],
                [Chord((Note('8', mark='q', pitch='c'), Note('8', dots=1, pitch='g', acc='-', decs=((3, 'J'),)))), lyr('li')],
                [Bar(number='2'), Bar(number='2')], [Note('8', mark='p', pitch='f', decs=((0, '('),)), Null('.')], [Rest('4', mark='q'), lyr('lu')],
                [Bar(double=True), Bar(double=True)], [Op('*-'), Op('*-')]])


def _marks_doc_small():
    from sv.ref.cells import Bar, Chord, Doc, Header as H, Note, Op
    from sv.ref.docs import sig
    return Doc([[H('**kern')], [sig('*clefG2', 'CLEF')], [Note('16', mark='qq', pitch='d', acc='#', decs=((3, 'L'),))], [Note('4', mark='P', pitch='e')],
                [Chord((Note('8', mark='q', pitch='c'), Note('8', dots=1, pitch='g', acc='-', decs=((3, 'J'),))))], [Bar(double=True)], [Op('*-')]])


def _clef_change_doc():
    """Clef changes in the middle of a spine (F4 -> C4 -> F4 next to an unchanged G2): the agnostic pair must agree note by note."""
    from sv.ref.cells import Doc, Header as H, Note, Null, Op
    from sv.ref.docs import sig
    return Doc([[H('**kern'), H('**kern')], [sig('*clefF4', 'CLEF'), sig('*clefG2', 'CLEF')], [Note('4', pitch='C'), Note('4', pitch='cc')],
                [sig('*clefC4', 'CLEF'), Null('*')], [Note('4', pitch='D'), Note('4', pitch='dd')], [Note('8', pitch='E'), Note('8', pitch='ee')],
                [sig('*clefF4', 'CLEF'), sig('*clefC1', 'CLEF')], [Note('2', pitch='F'), Note('2', pitch='ff')], [Op('*-'), Op('*-')]])


def load(tier):
    global POOL
    POOL = [_marks_doc_small()] + [docs.with_clef(d) for i, d in enumerate(docs.mini_docs()) if i in ((0, 1, 6) if tier == 'quick' else (0, 1, 2, 4, 6))] + docs.small() + [_clef_change_doc()]


class CatSet:
    def __init__(self, bits):
        self.bits = bits

    def __contains__(self, c):
        return self.bits[c.value - 1]

    def has(self, name):
        return self.bits[TC[name].value - 1]

    def names(self):
        return [NAMES[i] for i in range(N) if self.bits[i]]


PITCHES = ('c', 'BB')
ALTS = ('', '#')
CLEFS = ('*clefG2',)


def _tok(enc_i, S, token, clef):
    return TokenizerFactory.create(ENC[enc_i].value, token_categories=S, last_clef_reference=clef).tokenize(token)


def _mk_note(dur, dots, pitch, alt, decs):
    pd = [tk.Subtoken(dur, TC.DURATION)] + [tk.Subtoken('.', TC.DURATION)] * dots
    if pitch == 'r':
        pd.append(tk.Subtoken('r', TC.REST))
    else:
        pd.append(tk.Subtoken(pitch, TC.PITCH))
        if alt:
            pd.append(tk.Subtoken(alt, TC.ALTERATION))
    return tk.NoteRestToken('enc', pd, [tk.Subtoken(d, TC.DECORATION) for d in decs])


def ob_a(dur: str, d1: str, shape: int, p: int, a: int, clef: int, b: list[bool]) -> bool:
    """Tokens built directly with symbolic duration / signifier texts under a symbolic category set:
    plain == extended minus separators, basic == full minus signifiers note by note."""
    assume(len(b) == N)
    assume(len(dur) == 1 and len(d1) == 1)
    for s in (dur, d1):
        assume('@' not in s and '·' not in s and ' ' not in s)
    d2 = 'L'
    assume(0 <= shape < 6 and 0 <= p < len(PITCHES) and 0 <= a < len(ALTS) and 0 <= clef < len(CLEFS))
    sh = choose(shape, 6)
    pitch, alt = PITCHES[choose(p, len(PITCHES))], ALTS[choose(a, len(ALTS))]
    cl = tk.ClefToken(CLEFS[choose(clef, len(CLEFS))])
    S = CatSet(b)
    n1 = _mk_note(dur, {1: 1, 5: 3}.get(sh, 0), pitch, alt, [d1] if sh != 3 else [])      # shape 5: three augmentation dots
    if sh == 4:
        n2 = _mk_note(dur, 0, pitch, alt, [d1])         # the same note twice (a unison of two voices): two notes in every encoding
        token = tk.ChordToken('enc', TC.CHORD, [n1, n2])
        notes = [n1, n2]
    elif 2 <= sh <= 3:
        n2 = _mk_note(dur, 2 if sh == 3 else 0, 'r' if sh == 3 else 'a', '', [d2] if sh == 2 else [d1])      # the rest of shape 3 is double-dotted
        token = tk.ChordToken('enc', TC.CHORD, [n1, n2])
        notes = [n1, n2]
    else:
        token = n1
        notes = [n1]
    out = [_tok(i, S, token, cl) for i in range(6)]

    def strip(s):
        return ''.join(ch for ch in s if ch not in '@·')
    check(out[0] == strip(out[1]), lambda: f'kern {concrete(out[0])!r} != ekern {concrete(out[1])!r} minus separators')
    check(out[2] == strip(out[3]), lambda: f'bkern {concrete(out[2])!r} != bekern {concrete(out[3])!r} minus separators')
    check(out[4] == strip(out[5]), lambda: f'akern {concrete(out[4])!r} != aekern {concrete(out[5])!r} minus separators')
    # basic = full minus signifiers, note by note
    exp_full, exp_basic = [], []
    for n in notes:
        pd = [s.encoding for s in n.pitch_duration_subtokens if s.category in S]
        ds = [s.encoding for s in n.decoration_subtokens if s.category in S]
        assume(len(pd) > 0)        # selections that keep at least a duration / pitch / rest part of every note (property domain)
        exp_basic.append('@'.join(pd))
        exp_full.append('@'.join(pd) + ('·' + '·'.join(ds) if ds else ''))
    check(out[1] == ' '.join(exp_full), lambda: f'ekern {concrete(out[1])!r}, expected {concrete(" ".join(exp_full))!r}')
    check(out[3] == ' '.join(exp_basic), lambda: f'bekern {concrete(out[3])!r}, expected the ekern notes without signifiers {concrete(" ".join(exp_basic))!r}')
    check(len(out[3].split(' ')) == len(notes), 'a note of the chord was lost in bekern')
    check(len(out[2].split(' ')) == len(notes), 'a note of the chord was lost in bkern')
    return True


def ob_a2(s: str, kind: int, b: list[bool]) -> bool:
    """Non-note tokens are identical in the six encodings (symbolic text)."""
    assume(len(b) == N)
    assume(1 <= len(s) <= ctx.pick(4, 6))
    assume('@' not in s and '·' not in s)
    assume(0 <= kind < 4)
    k = choose(kind, 4)
    token = (tk.SimpleToken(s, TC.LYRICS), tk.ClefToken(s), tk.BarToken(s), tk.FieldCommentToken(s))[k]
    S = CatSet(b)
    out = [_tok(i, S, token, tk.ClefToken('*clefG2')) for i in range(6)]
    for i in range(6):
        check(out[i] == s, lambda: f'{ENC_NAMES[i]}: {concrete(out[i])!r} for token text {concrete(s)!r}')
    return True


# ------------------------------------------------------------------ C04.c headers
ALIASES = (kp.Encoding.normalizedExtendedKern, kp.Encoding.basicExtendedKern, kp.Encoding.basicKern)
ALIAS_PREFIX = ('e', 'be', 'b')


def ob_c(t: str, sid: int, e: int) -> bool:
    assume(len(t) <= ctx.pick(6, 8))
    assume(0 <= e < 9)
    ei = choose(e, 9)
    enc = ENC[ei] if ei < 6 else ALIASES[ei - 6]
    pre = PREFIX[ENC_NAMES[ei]] if ei < 6 else ALIAS_PREFIX[ei - 6]
    h = tk.HeaderToken('**' + t, sid)
    new = HeaderTokenGenerator.new(token=h, type=enc)
    check(new.encoding == '**' + pre + t, lambda: f'header {concrete(h.encoding)!r} under {enc.name}: {concrete(new.encoding)!r}')
    check(new.spine_id == sid and isinstance(new, tk.HeaderToken) and h.encoding == '**' + t, 'spine id / class / source token changed')
    check(enc.prefix() == pre, lambda: f'{enc.name}.prefix() = {enc.prefix()!r}')
    return True


# ------------------------------------------------------------------ C04.d documents x six encodings x category selections
@native
def get(i):
    if i not in _CACHE:
        D = POOL[i]
        doc, errs = kp.loads(D.text())
        heads = sorted({c.text for r in D.rows for c in r if c.kind == 'header'})
        _CACHE[i] = (D, doc, list(errs), heads)
    return _CACHE[i]


def ob_d(d: int, b: list[bool]) -> bool:
    assume(0 <= d < len(POOL))
    assume(len(b) == N)
    D, doc, errs, heads = get(choose(d, len(POOL)))
    S = CatSet(b)
    assume(S.has('DURATION') or S.has('PITCH'))     # selections that keep at least durations or pitches (property text)
    assume(S.has('HEADER') and S.has('SPINE_OPERATION'))   # keep the frame so that header lines can be compared (category filtering itself is C05)
    # priming: the six unfiltered exports first (a later filtered export must not be served from anything they left behind)
    prime = [Exporter().export_string(doc, ExportOptions(spine_types=heads, token_categories=set(TC), kern_type=e)) for e in ENC]
    for i in range(4):
        check(cells.parse_grid(prime[i]) == D.expected(ENC_NAMES[i]), lambda: f'unfiltered {ENC_NAMES[i]} export differs from the cell model')
    outs = []
    for e in ENC:
        outs.append(Exporter().export_string(doc, ExportOptions(spine_types=heads, token_categories=S, kern_type=e)))

    def strip(s):
        return ''.join(ch for ch in s if ch not in '@·')

    def body(s):       # everything after the header line
        return s[s.index('\n') + 1:] if '\n' in s else ''
    for plain, ext in ((0, 1), (2, 3), (4, 5)):
        check(body(outs[plain]) == strip(body(outs[ext])),
              lambda: f'selected={concrete(S.names())}: {ENC_NAMES[plain]} body is not {ENC_NAMES[ext]} minus separators:\n{concrete(outs[plain])!r}\n{concrete(outs[ext])!r}')
    # exact text for the four non-agnostic encodings from the cell model, header line for all six
    for i in range(6):
        grid = cells.parse_grid(concrete(outs[i]))
        exp_head = ['**' + PREFIX[ENC_NAMES[i]] + h.text[2:] for h in D.rows[1 if D.rows[0][0].kind == 'gcomment' else 0]]
        check(grid[0] == exp_head, lambda: f'{ENC_NAMES[i]} header line {grid[0]}, expected {exp_head}')
        if i < 4:
            exp = D.expected(ENC_NAMES[i], keep=S.has)
            check(cells.rows_equal(grid, exp), lambda: f'selected={concrete(S.names())}: {ENC_NAMES[i]} export {grid}, expected {concrete(exp)}')
    # non-note cells identical in all six encodings: each encoding against the rows of the model that survive in it
    rows = [r for r in D.rows if not (len(r) == 1 and r[0].kind == 'gcomment')]
    for i in range(6):
        grid = cells.parse_grid(concrete(outs[i]))
        model_enc = ENC_NAMES[i] if i < 4 else ENC_NAMES[i - 4]          # agnostic encodings drop the same lines as kern / ekern
        kept = [r for r in rows if not all(cells.export_cell(c, model_enc, S.has) in cells.NULLISH for c in r)]
        check(len(kept) == len(grid), lambda: f'{ENC_NAMES[i]} has {len(grid)} lines, the model keeps {len(kept)}')
        for r, g in zip(kept[1:], grid[1:]):
            check(len(r) == len(g), 'cell count')
            for c, x in zip(r, g):
                if not isinstance(c, (cells.Note, cells.Chord)):
                    y = cells.export_cell(c, 'ekern', S.has)
                    check(cells.null_eq(x, y), lambda: f'non-note cell {c.source()!r}: {ENC_NAMES[i]} {x!r}, expected {y!r}')
    return True


# ------------------------------------------------------------------ C04.e the option set: measure ranges x encodings
def ob_e(d: int, a: int, b: int, ids: int) -> bool:
    """Header line and plain/extended relation also when the export starts at a later measure / selects spines."""
    assume(0 <= d < 2 and 0 <= a <= 3 and 0 <= b <= 3 and 0 <= ids < 3)
    return _e_body(choose(d, 2), choose(a, 4), choose(b, 4), choose(ids, 3))


@native
def _e_body(d, a, b, ids):
    D = (_marks_doc(), docs.small()[0])[d]
    doc, errs = kp.loads(D.text())
    M = doc.measures_count()
    kw = {}
    if a:
        kw['from_measure'] = a
    if b:
        kw['to_measure'] = b
    heads = [h.text for h in D.rows[0]]
    if ids:
        # spine selection by TYPE (a measure range combined with spine_ids is not the subject of any property here)
        kw['spine_types'] = (['**kern'], ['**kern', '**text'])[ids - 1]
        heads = [h for h in heads if h in kw['spine_types']]
    outs = []
    for e in ENC:
        try:
            outs.append(kp.dumps(doc, encoding=e, **kw))
        except Exception as ex:
            outs.append(ex)
    if any(isinstance(o, Exception) for o in outs):
        check(all(isinstance(o, Exception) and type(o) is type(outs[0]) for o in outs), f'options {kw}: some encodings raise, others do not: {[type(o).__name__ for o in outs]}')
        return True

    def strip(s):
        return ''.join(ch for ch in s if ch not in '@·')
    for i, o in enumerate(outs):
        first = o.split('\n')[0].split('\t') if o else []
        check(first == ['**' + PREFIX[ENC_NAMES[i]] + h[2:] for h in heads], f'options {kw}: {ENC_NAMES[i]} header line {first}')
    for plain, ext in ((0, 1), (2, 3), (4, 5)):
        check(outs[plain].split('\n')[1:] == strip(outs[ext]).split('\n')[1:], f'options {kw}: {ENC_NAMES[plain]} is not {ENC_NAMES[ext]} minus separators')
    return True


def _shard_d(d, b):
    if len(b) != N:
        return 0
    return d + len(POOL) * ((1 if b[TC.BARLINES.value - 1] else 0) + 2 * (1 if b[TC.DECORATION.value - 1] else 0))


UNTRACE = [('kernpy.core.tokens', 'TokenCategoryHierarchyMapper.valid'), ('kernpy.core.exporter', 'Exporter.export_string')]

# ------------------------------------------------------------------ C04.f first call of an interpreter, then the observed exports
FRESH_REQ = [{e: {'encoding': e} for e in ('normalizedKern', 'eKern', 'bKern', 'bEkern')}, {e: {'encoding': e, 'exclude': ['DYNAMICS']} for e in ('normalizedKern', 'eKern', 'bKern', 'bEkern')}]


def ob_f(pre: int, d: int) -> bool:
    from sv.ref import fresh
    assume(0 <= pre < len(fresh.PRELUDES) and 0 <= d < 2)
    return _f_body(choose(pre, len(fresh.PRELUDES)), choose(d, 2))


@native
def _f_body(pre, d):
    from sv.ref import fresh, docs as _docs
    P = _docs.pool()
    D, other = (P[0], P[1]) if d == 0 else (P[1], P[0])
    bad = fresh.mismatches(pre, D, other.text(), FRESH_REQ[d])
    check(not bad, '; '.join(bad)[:1500])
    return True


# ------------------------------------------------------------------ C04.g public include / exclude keywords under all six encodings
_G = {}


def ob_g(d: int, i: int, x: int) -> bool:
    n = len(TC) + 1
    assume(0 <= d < 2 and 0 <= i < n and 0 <= x < n)
    return _g_body(choose(d, 2), choose(i, n), choose(x, n))


@native
def _g_body(d, i, x):
    """kp.dumps(doc, include=.., exclude=.., encoding=e) for the six encodings: the keyword route (option parsing included) gives
    consistent views -- plain == extended minus separators, basic == full minus signifiers note by note (cell model)."""
    from sv.ref import cats as refcats
    if 'tree' not in _G:
        entries, _ = refcats.documented()
        _G['tree'] = refcats.Model(entries)
        P = docs.pool()
        _G['docs'] = [(D, kp.loads(D.text())[0], sorted({c.text for r in D.rows for c in r if c.kind == 'header'})) for D in (docs.with_clef(P[0]), docs.with_clef(P[1]))]
    tree = _G['tree']
    D, doc, heads = _G['docs'][d]
    names = [c.name for c in TC]
    inc = None if i == 0 else [names[i - 1]]
    exc = None if x == 0 else [names[x - 1]]
    sel = set()
    for n_ in (inc if inc is not None else names):
        sel.update(tree.closure(n_))
    for n_ in exc or []:
        sel.difference_update(tree.closure(n_))
    if not ({'DURATION', 'PITCH'} & sel):
        return True            # the property speaks of selections that keep at least durations or pitches
    kw = {}
    if inc is not None:
        kw['include'] = [TC[n_] for n_ in inc]
    if exc is not None:
        kw['exclude'] = {TC[n_] for n_ in exc}
    outs = [kp.dumps(doc, spine_types=heads, encoding=e, **kw) for e in ENC]

    def strip(s):
        return ''.join(ch for ch in s if ch not in '@·')
    for plain, ext in ((0, 1), (2, 3), (4, 5)):
        check(outs[plain].split('\n')[1:] == strip(outs[ext]).split('\n')[1:],
              f'include={inc} exclude={exc}: {ENC_NAMES[plain]} is not {ENC_NAMES[ext]} minus separators: {outs[plain]!r} vs {outs[ext]!r}')
    for k in range(4):
        exp = D.expected(ENC_NAMES[k], keep=lambda c: c in sel)
        got = cells.parse_grid(outs[k])
        check(cells.rows_equal(got, exp), f'include={inc} exclude={exc}: {ENC_NAMES[k]} export {got}, cell model {exp}')
    return True


OBLIGATIONS = [
    Ob(id='C04.g', fn=ob_g, title='the keyword route: dumps(include=.., exclude=.., encoding=e) for the six encodings is consistent with the cell model',
       shard_of=lambda d, i, x: i, shards={'quick': 8, 'thorough': 8}, budget_s={'quick': 150, 'thorough': 600}, native_body=True,
       witnesses=[{'d': 0, 'i': 0, 'x': 9}], min_confirmed=1000, enumerated='document (2), include (None | 37 singles), exclude (None | 37 singles)',
       bounds={'quick': '2 pool documents x 38 x 38 keyword pairs x 6 encodings (selections that keep durations or pitches)', 'thorough': 'same'}),
    Ob(id='C04.f', fn=ob_f, title='histories from the first call of a fresh interpreter: the kern / ekern / bkern / bekern views stay consistent with the cell model',
       shard_of=lambda pre, d: pre, shards={'quick': 5, 'thorough': 5}, budget_s={'quick': 150, 'thorough': 600}, native_body=True,
       witnesses=[{'pre': 0, 'd': 0}], min_confirmed=15, enumerated='first call (10 kinds, incl. none), document (2)',
       realized_at=['fresh python interpreter per history (subprocess)'],
       bounds={'quick': '10 first calls x 2 pool documents (kern + text with chord / decorations / accidentals; kern + dynam + harm)', 'thorough': 'same'}),
    Ob(id='C04.e', fn=ob_e, title='header line and plain/extended relation under measure ranges and spine selection, six encodings',
       shard_of=lambda d, a, b, ids: a + 4 * b, shards={'quick': 4, 'thorough': 4}, budget_s={'quick': 120, 'thorough': 600},
       witnesses=[{'d': 0, 'a': 2, 'b': 2, 'ids': 0}], min_confirmed=60, enumerated='document (2), from_measure 0..3 (0 = omitted), to_measure 0..3, spine-type selection (3)',
       bounds={'quick': '2 x 4 x 4 x 3 option sets x 6 encodings', 'thorough': 'same'}),
    Ob(id='C04.a', fn=ob_a, title='tokens with symbolic sub-token texts under a symbolic category set: plain == extended - separators, basic == full - signifiers per note',
       shard_of=lambda dur, d1, shape, p, a, clef, b: shape + 6 * p + 12 * a, shards={'quick': 24, 'thorough': 24}, budget_s={'quick': 170, 'thorough': 2400},
       witnesses=[{'dur': '4', 'd1': 'J', 'shape': 2, 'p': 0, 'a': 1, 'clef': 0, 'b': [True] * N}], min_confirmed=100,
       symbolic='duration text, signifier text (arbitrary 1-character strings), category set (37 booleans)', enumerated='token shape (note, dotted note, chord, chord with double-dotted rest, chord holding one note twice, triple-dotted note), pitch, accidental, clef',
       bounds={'quick': 'duration 1 char, signifier 1 char; 6 shapes x 2 pitches x 2 accidentals, G2 clef (clef dependence is C10)', 'thorough': 'same'}),
    Ob(id='C04.a2', fn=ob_a2, title='non-note tokens are identical in the six encodings (symbolic text, symbolic category set)',
       budget_s={'quick': 120, 'thorough': 900}, witnesses=[{'s': 'la', 'kind': 0, 'b': [True] * N}], min_confirmed=4,
       symbolic='token text, category set', enumerated='token class (lyric, clef, barline, field comment)',
       bounds={'quick': 'text <= 4 chars', 'thorough': 'text <= 6 chars'}),
    Ob(id='C04.c', fn=ob_c, title='header rewriting: ** + encoding prefix + original type, for any type string',
       budget_s={'quick': 120, 'thorough': 600}, witnesses=[{'t': 'kern', 'sid': 2, 'e': 3}], min_confirmed=9,
       symbolic='type string, spine id', enumerated='6 encodings + 3 aliases', bounds={'quick': 'type <= 6 chars', 'thorough': 'type <= 8 chars'}),
    Ob(id='C04.d', fn=ob_d, title='documents: six exports per category selection; plain == extended - separators; model text; non-note cells identical',
       shard_of=_shard_d, shards={'quick': 16, 'thorough': 24}, budget_s={'quick': 170, 'thorough': 2400}, untrace=UNTRACE,
       witnesses=[{'d': 0, 'b': [True] * N}], min_confirmed=300,
       symbolic='category set (37 booleans) restricted to selections that keep durations or pitches and the header/terminator frame', enumerated='document selector',
       bounds={'quick': 'a document with grace / appoggiatura marks and chords + 3 mini documents + 1 small document + a document with clef changes in the middle of both spines, six encodings each', 'thorough': '+ 2 more mini documents'}),
]
