"""C05  Category filtering removes exactly the unselected material.

Anchors: Generic.parse_options_to_ExportOptions -> TokenCategoryHierarchyMapper.valid;
Exporter.append_row / _retrieve_empty_token; NoteRestToken.export / CompoundToken.export.
The selected-category set is a symbolic container (37 symbolic booleans): one run
quantifies over all 2^37 selections per document.
"""
from sv.engine import ctx
from sv.engine.ob import Ob
from sv.engine.xh import assume, check, choose, concrete, native
from sv.ref import cells, docs
from sv.ref import cats as refcats

import kernpy as kp
from kernpy.core.exporter import Exporter, ExportOptions
from kernpy.core.tokens import TokenCategory as TC

CATS = list(TC)
N = len(CATS)
NAMES = [c.name for c in CATS]
_entries, DOC_SRC = refcats.documented()
TREE = refcats.Model(_entries)

META = {
    'outside': ['documents outside the pool\'s shapes (the per-cell gate is position independent: C13.c)',
                'which null character stands for a removed token ("." or "*"): the property only says "a null placeholder"'],
    'assumptions': ['closure algebra of valid() for arbitrary sets: C11.c (SMT, all 2^37 x 2^37 pairs)'],
}

POOL = []
_CACHE = {}


def load(tier):
    global POOL
    POOL = docs.mini_docs()


class CatSet:
    """token_categories as one symbolic boolean per category."""

    def __init__(self, bits):
        self.bits = bits

    def __contains__(self, c):
        return self.bits[c.value - 1]

    def has(self, name):
        return self.bits[TC[name].value - 1]

    def names(self):
        return [NAMES[i] for i in range(N) if self.bits[i]]


@native
def get(i):
    if i not in _CACHE:
        D = POOL[i]
        doc, errs = kp.loads(D.text())
        heads = sorted({c.text for r in D.rows for c in r if c.kind == 'header'})
        _CACHE[i] = (D, doc, list(errs), heads)
    return _CACHE[i]


def ob_a(d: int, b: list[bool]) -> bool:
    assume(0 <= d < len(POOL))
    assume(len(b) == N)
    D, doc, errs, heads = get(choose(d, len(POOL)))
    check(not errs, 'import errors')
    S = CatSet(b)
    opts = ExportOptions(spine_types=heads, token_categories=S, kern_type=kp.Encoding.eKern)
    got = Exporter().export_string(doc, opts)
    exp = D.expected('ekern', keep=S.has)
    grid = cells.parse_grid(concrete(got))
    check(cells.rows_equal(grid, exp), lambda: f'selected={concrete(S.names())}: exported {grid}, expected {concrete(exp)}')
    return True


def _shard_a(d, b):
    # spread each document over several workers by two heavily used bits
    if len(b) != N:
        return 0
    return d + len(POOL) * ((1 if b[TC.BARLINES.value - 1] else 0) + 2 * (1 if b[TC.HEADER.value - 1] else 0))


# ------------------------------------------------------------------ C05.b public include/exclude, end to end
def model_valid(inc, exc):
    I = set(NAMES) if inc is None else set(inc)
    X = set() if exc is None else set(exc)
    sel = set()
    for n in I:
        sel.update(TREE.closure(n))
    for n in X:
        sel.difference_update(TREE.closure(n))
    return sel


def _sel(k):
    """k: 0 = None (omitted), 1..37 = single category, then pairs."""
    if k == 0:
        return None
    if k <= N:
        return [NAMES[k - 1]]
    k -= N + 1
    for i in range(N):
        if k < N - 1 - i:
            return [NAMES[i], NAMES[i + 1 + k]]
        k -= N - 1 - i
    raise IndexError


NSEL1 = N + 1
NSEL2 = N + 1 + N * (N - 1) // 2


def ob_b(d: int, i: int, x: int, style: int) -> bool:
    """dumps(doc, include=I, exclude=X) == oracle filter under closure(I) - closure(X)."""
    nd = 2
    assume(0 <= d < nd)
    assume(0 <= style < 3)
    assume(0 <= i < NSEL2 and 0 <= x < NSEL2)
    assume(i < NSEL1 or x == 0)          # pairs on one side at a time
    assume(x < NSEL1 or i == 0)
    return _b_body(choose(d, nd), choose(i, NSEL2), choose(x, NSEL2), choose(style, 3))


@native
def _b_body(d, i, x, style):
    D, doc, errs, heads = get((0, 1)[d])
    inc, exc = _sel(i), _sel(x)
    conv = (lambda v: None if v is None else {TC[n] for n in v},
            lambda v: None if v is None else [TC[n] for n in v],
            lambda v: None if v is None else (TC[v[0]] if len(v) == 1 else tuple(TC[n] for n in v)))[style]
    kw = {}
    if inc is not None:
        kw['include'] = conv(inc)
    if exc is not None:
        kw['exclude'] = conv(exc)
    full_exp = D.expected('ekern')
    pre = kp.dumps(doc, encoding=kp.Encoding.eKern, spine_types=heads)            # unfiltered export before ...
    kp.dumps(doc, encoding=kp.Encoding.bEkern, spine_types=heads, **kw)          # the same pair in a basic encoding first (must leave nothing behind)
    got = kp.dumps(doc, encoding=kp.Encoding.eKern, spine_types=heads, **kw)
    post = kp.dumps(doc, encoding=kp.Encoding.eKern, spine_types=heads)           # ... and after the filtered one
    check(cells.parse_grid(pre) == full_exp, f'unfiltered export {cells.parse_grid(pre)} differs from the cell model {full_exp}')
    check(post == pre, f'the unfiltered export changed after exporting with include={inc} exclude={exc}: {post!r} vs {pre!r}')
    sel = model_valid(inc, exc)
    exp = D.expected('ekern', keep=lambda name: name in sel)
    grid = cells.parse_grid(got)
    check(cells.rows_equal(grid, exp), f'include={inc} exclude={exc}: exported {grid}, expected {exp}')
    # the options object carries exactly the closure difference
    from kernpy.core.generic import Generic
    o = Generic.parse_options_to_ExportOptions(**kw)
    check({c.name for c in o.token_categories} == sel, f'include={inc} exclude={exc}: token_categories {sorted(c.name for c in o.token_categories)} != {sorted(sel)}')
    if inc is None and exc is None:
        check(got == kp.dumps(doc, encoding=kp.Encoding.eKern, spine_types=heads, include=set(TC), exclude=set()),
              'include=all / exclude=nothing is not the identity')
    # the caller's own container, changed in place between two calls: the second call sees the new content
    if style in (0, 1):
        for side, names in (('include', inc), ('exclude', exc)):
            if names is None:
                continue
            box = conv(names)
            kw2 = dict(kw)
            kw2[side] = box
            kp.dumps(doc, encoding=kp.Encoding.eKern, spine_types=heads, **kw2)
            extra = TC.BARLINES if 'BARLINES' not in names else TC.LYRICS
            if isinstance(box, set):
                box.add(extra)
            else:
                box.append(extra)
            second = kp.dumps(doc, encoding=kp.Encoding.eKern, spine_types=heads, **kw2)
            kw3 = dict(kw)
            kw3[side] = type(box)(box)
            ref = kp.dumps(doc, encoding=kp.Encoding.eKern, spine_types=heads, **kw3)
            names2 = list(names) + [extra.name]
            sel2 = model_valid(names2 if side == 'include' else inc, names2 if side == 'exclude' else exc)
            exp2 = D.expected('ekern', keep=lambda name: name in sel2)
            check(cells.rows_equal(cells.parse_grid(second), exp2),
                  f'{side}={names} exported, then {extra.name} added to the SAME container and exported again: {cells.parse_grid(second)}, expected {exp2}')
            check(second == ref, f'{side}: a container changed in place between two calls gives {second!r}, a fresh container with the same members {ref!r}')
    return True


# ------------------------------------------------------------------ C05.c larger documents, category groups
GROUPS = (('DURATION', 'PITCH', 'ALTERATION', 'DECORATION', 'REST', 'CHORD', 'BARLINES', 'EMPTY'),
          ('HEADER', 'SPINE_OPERATION', 'CLEF', 'KEY_SIGNATURE', 'TIME_SIGNATURE', 'METER_SYMBOL', 'FIELD_COMMENTS', 'LYRICS'),
          ('DYNAMICS', 'HARMONY', 'FINGERING', 'OTHER', 'OTHER_CONTEXTUAL', 'ENGRAVED_SYMBOLS', 'STRUCTURAL', 'BOUNDING_BOXES'))
BIG = []
_BIGCACHE = {}


class GroupSet:
    """token_categories with one symbolic boolean per category of one group; every other category selected."""

    def __init__(self, names, bits):
        self.m = dict(zip(names, bits))

    def __contains__(self, c):
        return self.m.get(c.name, True)

    def has(self, name):
        return self.m.get(name, True)

    def unselected(self):
        return [n for n, v in self.m.items() if not v]


@native
def get_big(i):
    if not BIG:
        BIG.extend(docs.pool())
    if i not in _BIGCACHE:
        D = BIG[i]
        doc, errs = kp.loads(D.text())
        heads = sorted({c.text for r in D.rows for c in r if c.kind == 'header'})
        _BIGCACHE[i] = (D, doc, list(errs), heads)
    return _BIGCACHE[i]


def ob_c(d: int, g: int, b0: bool, b1: bool, b2: bool, b3: bool, b4: bool, b5: bool, b6: bool, b7: bool) -> bool:
    """The six pool documents (two to three spines, split/join, chords, comments, all spine types) under every selection of one
    category group at a time (the other categories selected)."""
    assume(0 <= d < 6 and 0 <= g < len(GROUPS))
    D, doc, errs, heads = get_big(choose(d, 6))
    gi = choose(g, len(GROUPS))
    S = GroupSet(GROUPS[gi], (b0, b1, b2, b3, b4, b5, b6, b7))
    opts = ExportOptions(spine_types=heads, token_categories=S, kern_type=kp.Encoding.eKern)
    got = Exporter().export_string(doc, opts)
    exp = D.expected('ekern', keep=S.has)
    grid = cells.parse_grid(concrete(got))
    check(cells.rows_equal(grid, exp), lambda: f'unselected={concrete(S.unselected())}: exported {grid}, expected {concrete(exp)}')
    return True


def _desc_a(d, b):
    return {'document': POOL[d].text(), 'selected': [NAMES[i] for i in range(N) if b[i]]}


UNTRACE = [('kernpy.core.tokens', 'TokenCategoryHierarchyMapper.valid')]

# ------------------------------------------------------------------ C05.d first call of an interpreter, then the observed exports
FRESH_REQ = [{'no signifiers': {'exclude': ['DECORATION'], 'encoding': 'eKern'}, 'notes and barlines': {'include': ['NOTE_REST', 'BARLINES', 'HEADER', 'SPINE_OPERATION'], 'encoding': 'eKern'}, 'identity': {'encoding': 'eKern'}}, {'no pitches': {'exclude': ['PITCH'], 'encoding': 'eKern'}, 'identity': {'encoding': 'eKern'}}]


def ob_d(pre: int, d: int) -> bool:
    from sv.ref import fresh
    assume(0 <= pre < len(fresh.PRELUDES) and 0 <= d < 2)
    return _d_body(choose(pre, len(fresh.PRELUDES)), choose(d, 2))


@native
def _d_body(pre, d):
    from sv.ref import fresh, docs as _docs
    P = _docs.pool()
    D, other = (P[0], P[1]) if d == 0 else (P[1], P[0])
    bad = fresh.mismatches(pre, D, other.text(), FRESH_REQ[d])
    check(not bad, '; '.join(bad)[:1500])
    return True


OBLIGATIONS = [
    Ob(id='C05.d', fn=ob_d, title='histories from the first call of a fresh interpreter: category-filtered exports still remove exactly the unselected material',
       shard_of=lambda pre, d: pre, shards={'quick': 5, 'thorough': 5}, budget_s={'quick': 150, 'thorough': 600}, native_body=True,
       witnesses=[{'pre': 0, 'd': 0}], min_confirmed=15, enumerated='first call (10 kinds, incl. none), document (2)',
       realized_at=['fresh python interpreter per history (subprocess)'],
       bounds={'quick': '10 first calls x 2 pool documents (kern + text with chord / decorations / accidentals; kern + dynam + harm)', 'thorough': 'same'}),
    Ob(id='C05.c', fn=ob_c, title='pool documents (split/join, chords, comments, all spine types) under every selection within a category group',
       shard_of=lambda d, g, *bits: d + 6 * g, shards={'quick': 18, 'thorough': 18}, budget_s={'quick': 170, 'thorough': 1800}, untrace=UNTRACE,
       witnesses=[{'d': 0, 'g': 0, 'b0': True, 'b1': False, 'b2': True, 'b3': True, 'b4': False, 'b5': True, 'b6': True, 'b7': True}], min_confirmed=300,
       symbolic='eight category bits of one group (all 256 selections; the other categories selected)', enumerated='document (6), category group (3)',
       bounds={'quick': '6 pool documents x 3 groups of 8 categories', 'thorough': 'same'}),
    Ob(id='C05.a', fn=ob_a, title='export under an arbitrary selected-category set == oracle filter of the cell model',
       shard_of=_shard_a, shards={'quick': 36, 'thorough': 36}, budget_s={'quick': 170, 'thorough': 1800}, untrace=UNTRACE,
       witnesses=[{'d': 0, 'b': [True] * N}, {'d': 1, 'b': [i % 2 == 0 for i in range(N)]}], min_confirmed=500,
       symbolic='token_categories: 37 symbolic booleans (all 2^37 selections per document)', enumerated='document selector',
       bounds={'quick': '9 mini documents (<= 9 categories asked each; two with the same text under different categories in one document; kern/text/dynam/harm/fing/mxhm/unknown spines; split+join; chord; signatures; tandems; comments)',
               'thorough': 'same pool'}, describe=_desc_a),
    Ob(id='C05.b', fn=ob_b, title='public include/exclude: every single category and pair, None, three argument styles',
       shard_of=lambda d, i, x, style: i + x, shards={'quick': 16, 'thorough': 16}, budget_s={'quick': 170, 'thorough': 1800},
       witnesses=[{'d': 0, 'i': 4, 'x': 8, 'style': 0}, {'d': 1, 'i': 0, 'x': 0, 'style': 2}], min_confirmed=1000,
       enumerated='document, include selection, exclude selection, argument style',
       bounds={'quick': '2 documents x (None | 37 singles) x (None | 37 singles) + all 666 pairs on either side x 3 styles',
               'thorough': 'same'}),
]
