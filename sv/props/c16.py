"""C16  Pitch spelling codec is lossless and side-effect free.

Anchors: HumdrumPitchImporter._parse_pitch, HumdrumPitchExporter.export_pitch,
AgnosticPitch.name setter (kernpy/core/pitch_models.py).
"""
from sv.engine.ob import Ob
from sv.engine.xh import assume, check
from sv.engine import ctx

import kernpy as kp

LETTERS = ('c', 'd', 'e', 'f', 'g', 'a', 'b')
SMALL = (0, 1, 2, 3, 4, 5, 6, 7, 8, 9, 10, 11, 12, 13)

META = {
    'outside': ['octaves outside -1..9 (quick) / -3..12 (thorough); more than three accidentals (rejected by the name setter)',
                'the American codec (not part of the property)'],
    'assumptions': [],
}


def spelling(letter: int, alt: int, octave: int) -> str:
    """Reference writer, independent of kernpy: letter repeated for the octave,
    lower case from octave 4 up, upper case below, then the accidentals."""
    L = LETTERS[letter]
    if octave >= 4:
        body = L * SMALL[octave - 3]
    else:
        body = L.upper() * SMALL[4 - octave]
    if alt >= 0:
        acc = '#' * SMALL[alt]
    else:
        acc = '-' * SMALL[-alt]
    return body + acc


def _bounds():
    return ctx.pick((-1, 9), (-3, 12))


def ob_a(letter: int, alt: int, octave: int) -> bool:
    lo, hi = _bounds()
    assume(0 <= letter < 7)
    assume(-3 <= alt <= 3)
    assume(lo <= octave <= hi)
    s = spelling(letter, alt, octave)
    p = kp.HumdrumPitchImporter().import_pitch(s)
    exp_name = LETTERS[letter].upper() + ('+' * SMALL[alt] if alt >= 0 else '-' * SMALL[-alt])
    check(p.name == exp_name, lambda: f'import_pitch({s!r}).name = {p.name!r}, expected {exp_name!r}')
    check(p.octave == octave, lambda: f'import_pitch({s!r}).octave = {p.octave!r}, expected {octave}')
    out1 = kp.HumdrumPitchExporter().export_pitch(p)
    check(out1 == s, lambda: f'export_pitch(import_pitch({s!r})) = {out1!r}')
    check(p.name == exp_name and p.octave == octave,
          f'export_pitch altered its argument: name {exp_name!r} -> {p.name!r}, octave {octave} -> {p.octave!r}')
    out2 = kp.HumdrumPitchExporter().export_pitch(p)
    check(out2 == s, lambda: f'second export_pitch of the same pitch object = {out2!r}, first = {out1!r}')
    return True


SHARP = ('+', '#')
FLAT = ('-', '-')   # the name setter upper-cases before it looks for 'b', so only '-' spells a flat


def ob_b(letter: int, alt: int, octave: int, upper: bool, style: int) -> bool:
    """Pitch objects built directly (both accidental spellings accepted by the name
    setter), exported twice with one shared exporter."""
    lo, hi = _bounds()
    assume(0 <= letter < 7)
    assume(-3 <= alt <= 3)
    assume(lo <= octave <= hi)
    assume(0 <= style < 2)
    L = LETTERS[letter].upper() if upper else LETTERS[letter]
    name = L + (SHARP[style] * SMALL[alt] if alt >= 0 else FLAT[style] * SMALL[-alt])
    p = kp.AgnosticPitch(name, octave)
    n0, o0 = p.name, p.octave
    ex = kp.HumdrumPitchExporter()
    out1 = ex.export_pitch(p)
    exp = spelling(letter, alt, octave)
    check(out1 == exp, lambda: f'export_pitch(AgnosticPitch({name!r},{octave})) = {out1!r}, expected {exp!r}')
    check(p.name == n0 and p.octave == o0, lambda: f'export_pitch altered its argument: {n0!r} -> {p.name!r}')
    out2 = ex.export_pitch(p)
    check(out2 == out1, lambda: f'exporting twice differs: {out1!r} then {out2!r}')
    q = kp.HumdrumPitchImporter().import_pitch(out1)
    check(q == p, lambda: f're-import of {out1!r} gives {q} != {p}')
    # the same object moved through its public setters after it was exported (and hashed): what is exported is the pitch as it is NOW
    hash(p)
    o2 = octave + 1 if octave < hi else octave - 1
    p.octave = o2
    exp2 = spelling(letter, alt, o2)
    out3 = ex.export_pitch(p)
    check(out3 == exp2, lambda: f'pitch exported as {out1!r}, its octave then set to {o2}: the same exporter now gives {out3!r}, expected {exp2!r}')
    out3b = kp.HumdrumPitchExporter().export_pitch(p)
    check(out3b == exp2, lambda: f'pitch exported as {out1!r}, its octave then set to {o2}: a fresh exporter gives {out3b!r}, expected {exp2!r}')
    l3 = (letter + 2) % 7
    p.name = (LETTERS[l3].upper() if upper else LETTERS[l3]) + name[1:]
    exp3 = spelling(l3, alt, o2)
    out4 = ex.export_pitch(p)
    check(out4 == exp3, lambda: f'pitch renamed to {p.name!r} after two exports: {out4!r}, expected {exp3!r}')
    q3 = kp.HumdrumPitchImporter().import_pitch(out4)
    check(q3 == p, lambda: f're-import of {out4!r} gives {q3} != {p}')
    return True


def ob_c(letter: int, alt: int, octave: int, alt2: int, low2: bool) -> bool:
    """Histories: ONE importer and ONE exporter used for a pitch, then another, then the first again:
    every answer equals the answer of a fresh codec (no state may leak between calls)."""
    lo, hi = _bounds()
    assume(0 <= letter < 7)
    assume(-3 <= alt <= 3)
    assume(lo <= octave <= hi)
    assume(-3 <= alt2 <= 3)
    letter2 = (letter + 1) % 7
    octave2 = 3 if low2 else 4
    s1 = spelling(letter, alt, octave)
    s2 = spelling(letter2, alt2, octave2)
    im, ex = kp.HumdrumPitchImporter(), kp.HumdrumPitchExporter()
    p1 = im.import_pitch(s1)
    p2 = im.import_pitch(s2)
    p1b = im.import_pitch(s1)
    check(p1 == p1b, lambda: f'import_pitch({s1!r}) before and after import_pitch({s2!r}) on one importer differ: {p1} vs {p1b}')
    check(p2.octave == octave2 and p1.octave == octave, 'octave after reuse of the importer')
    o1 = ex.export_pitch(p1)
    o2 = ex.export_pitch(p2)
    o1b = ex.export_pitch(p1)
    check(o1 == s1, lambda: f'export_pitch = {o1!r} for {s1!r}')
    check(o2 == s2, lambda: f'one exporter used for {s1!r} then {s2!r}: second answer {o2!r}')
    check(o1b == s1, lambda: f'one exporter used for {s1!r}, {s2!r}, {s1!r}: third answer {o1b!r}')
    return True


OCT_D = (-1, 0, 1, 4, 9)


def ob_d(letter: int, alt: int, oi: int, alt2: int, oi2: int) -> bool:
    """Histories on ONE letter: two spellings of the same letter (any two alterations / registers) go through fresh codec
    objects one after the other, then the first again; an answer may not depend on what was converted before
    (e.g. a memo keyed by name + octave cannot tell C at octave -1 from C-flat at octave 1)."""
    octs = OCT_D if not ctx.thorough() else tuple(range(-3, 13))
    assume(0 <= letter < 7)
    assume(-3 <= alt <= 3)
    assume(-3 <= alt2 <= 3)
    assume(0 <= oi < len(octs))
    assume(0 <= oi2 < len(octs))
    octave, octave2 = octs[oi], octs[oi2]
    s1 = spelling(letter, alt, octave)
    s2 = spelling(letter, alt2, octave2)
    p1 = kp.HumdrumPitchImporter().import_pitch(s1)
    p2 = kp.HumdrumPitchImporter().import_pitch(s2)
    check(p1.octave == octave and p2.octave == octave2, lambda: f'octaves of {s1!r}, {s2!r}: {p1.octave}, {p2.octave}')
    o1 = kp.HumdrumPitchExporter().export_pitch(p1)
    o2 = kp.HumdrumPitchExporter().export_pitch(p2)
    o1b = kp.HumdrumPitchExporter().export_pitch(p1)
    check(o1 == s1, lambda: f'export_pitch = {o1!r} for {s1!r}')
    check(o2 == s2, lambda: f'{s1!r} exported, then {s2!r}: second answer {o2!r}')
    check(o1b == s1, lambda: f'{s1!r}, {s2!r}, {s1!r} exported in a row: third answer {o1b!r}')
    q2 = kp.HumdrumPitchImporter().import_pitch(o2)
    check(q2 == p2, lambda: f're-import of {o2!r} gives {q2} != {p2}')
    return True


def _desc_d(letter, alt, oi, alt2, oi2):
    octs = OCT_D if not ctx.thorough() else tuple(range(-3, 13))
    return {'first': spelling(letter, alt, octs[oi]), 'second': spelling(letter, alt2, octs[oi2])}


def _desc_a(letter, alt, octave):
    return {'spelling': spelling(letter, alt, octave)}


OBLIGATIONS = [
    Ob(id='C16.d', fn=ob_d, title='histories on one letter: two spellings of the same letter through fresh codec objects, then the first again',
       shard_of=lambda letter, alt, oi, alt2, oi2: letter + 7 * (alt + 3),
       shards={'quick': 16, 'thorough': 16}, budget_s={'quick': 170, 'thorough': 2400},
       witnesses=[{'letter': 0, 'alt': 0, 'oi': 0, 'alt2': -1, 'oi2': 2}], min_confirmed=500,
       symbolic='letter, two alterations, two register indices (integers)', enumerated='-',
       bounds={'quick': '7 letters x (alterations -3..3 x octaves {-1,0,1,4,9}) squared', 'thorough': '7 letters x (alterations -3..3 x octaves -3..12) squared'},
       describe=_desc_d),
    Ob(id='C16.c', fn=ob_c, title='histories: one importer / exporter reused across different pitches',
       shard_of=lambda letter, alt, octave, alt2, low2: letter + 7 * (alt + 3),
       shards={'quick': 16, 'thorough': 16}, budget_s={'quick': 170, 'thorough': 1200},
       witnesses=[{'letter': 0, 'alt': 1, 'octave': 4, 'alt2': 0, 'low2': False}], min_confirmed=500,
       symbolic='first pitch (letter, alteration, octave), second pitch alteration and register', enumerated='-',
       bounds={'quick': 'first pitch over the whole C16.a grid x second pitch = next letter x alterations -3..3 x octaves {3,4}', 'thorough': 'C16.a thorough grid'}),
    Ob(id='C16.a', fn=ob_a, title='import -> export -> export on every spelling',
       shard_of=lambda letter, alt, octave: letter + 7 * (alt + 3),
       shards={'quick': 8, 'thorough': 14},
       budget_s={'quick': 120, 'thorough': 600},
       witnesses=[{'letter': 0, 'alt': 0, 'octave': 4}, {'letter': 6, 'alt': 3, 'octave': 9}],
       min_confirmed=100,
       symbolic='letter index, alteration, octave (integers)', enumerated='-',
       bounds={'quick': '7 letters x alterations -3..3 x octaves -1..9', 'thorough': '7 letters x alterations -3..3 x octaves -3..12'},
       describe=_desc_a),
    Ob(id='C16.b', fn=ob_b, title='directly built pitch objects exported twice, both accidental spellings; then moved through their setters and exported again',
       shard_of=lambda letter, alt, octave, upper, style: letter + 7 * (alt + 3),
       shards={'quick': 16, 'thorough': 16},
       budget_s={'quick': 170, 'thorough': 900},
       witnesses=[{'letter': 0, 'alt': -1, 'octave': 0, 'upper': True, 'style': 1}],
       min_confirmed=100,
       symbolic='letter index, alteration, octave, case flag, accidental style', enumerated='-',
       bounds={'quick': 'as C16.a x {upper,lower} name x {+/-, #/b}', 'thorough': 'as C16.a thorough'}),
]
