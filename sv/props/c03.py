"""C03  Export conserves the score content cell for cell.

Anchors: exit* rules of BaseANTLRSpineParserListener, SimpleToken/NoteRestToken/ChordToken.export,
Exporter.export_string, KernTokenizer.  Oracle: the generator's abstract cell descriptions
(sv/ref/cells.py, sv/ref/slots.py), independent of kernpy's parser.
"""
from sv.engine import ctx
from sv.engine.ob import Ob
from sv.engine.xh import assume, check, choose, concrete, native
from sv.ref import alphabets as al, cells, docs, slots, stubs
from sv.ref import spinepath as sp

import kernpy as kp
from kernpy.core import tokens as tk
from kernpy.core.importer import Importer
from kernpy.core.kern_spine_importer import KernSpineListener

META = {
    'outside': ['tokens longer than the slot bounds; signifiers outside the candidate list; **mens',
                'decorations of chord notes beyond "at least their own" (kernpy shares the decoration list across a chord; the property allows it)'],
    'assumptions': ['alphabets are those the current parser accepts; core members (read off the grammar) are used unconditionally'],
}

G = None
POOL = []


def setup(tier):
    A = al.classify()
    return {'alphabets': A, 'alphabet_sizes': al.sizes(A), 'core_missing': al.core_missing(A)}


def load(tier):
    global G, POOL
    G = slots.Grids(ctx.DATA['alphabets'], tier)
    POOL = docs.pool()


DISPLAY_CHARS = ('x', 'X', 'i', 'I', 'j', 'Z', 'y', 'Y')
DUR_MARKS = ('q', 'qq', 'p', 'P', '.')


@native
def _export_cell(src, enc):
    """(errors, exported cell or None if the line was dropped) for a one-spine document holding `src`."""
    doc, errs = kp.loads('**kern\n' + src + '\n4c\n*-\n')
    out = kp.dumps(doc, encoding=enc).split('\n')
    if len(out) < 4 or out[2] != ('4c' if enc == kp.Encoding.normalizedKern else '4@c'):
        return errs, None
    return errs, out[1]


def _note_ok(cell, what):
    errs, got = _export_cell(cell.source(), kp.Encoding.eKern)
    check(not errs, f'{what} {cell.source()!r}: import reported {[str(e) for e in errs]}')
    exp = cells.export_cell(cell, 'ekern')
    check(got == exp, f'{what} {cell.source()!r}: extended export {got!r}, the cell model says {exp!r}')
    errs, gotk = _export_cell(cell.source(), kp.Encoding.normalizedKern)
    expk = cells.export_cell(cell, 'kern')
    check(gotk == expk, f'{what} {cell.source()!r}: default export {gotk!r}, the cell model says {expk!r}')
    return True


# ------------------------------------------------------------------ C03.b notes and rests keep their material
def ob_b(grid: int, k: int) -> bool:
    assume(0 <= grid < 5)
    g = choose(grid, 5)
    dims = _dims(g)
    n = slots.size(dims)
    assume(0 <= k < n)
    return _b_body(g, choose(k, n))


@native
def _dims(g):
    return (G.g_plain(), G.g_marks(), G.g_dec(), G.g_disp(), G.g_rest())[g]


@native
def _b_body(g, k):
    idx = slots.unrank(_dims(g), k)
    cell = (G.plain, G.marks, G.one_dec, G.disp_note, G.rest)[g](idx)
    if g == 2:
        s = cell.decs[0][1]
        if s in DUR_MARKS:
            return True            # duration marks are covered as marks (grid 1); as free signifiers they are position dependent by grammar
        if s[0] in DISPLAY_CHARS and cell.acc:
            return True            # the grammar reads these as accidental-display suffixes: generated only on notes without accidental (property text)
    for _, s in cell.decs:
        ctx.known('KF-C03-separator-chars', '@' in s or '·' in s)
    return _note_ok(cell, ('plain note', 'duration mark', 'signifier', 'display suffix', 'rest')[g])


# ------------------------------------------------------------------ C03.b2 chords
def ob_b2(k: int) -> bool:
    n = slots.size(G.g_chord())
    assume(0 <= k < n)
    return _b2_body(choose(k, n))


@native
def _b2_body(k):
    ch = G.chord(slots.unrank(G.g_chord(), k))
    errs, got = _export_cell(ch.source(), kp.Encoding.eKern)
    check(not errs, f'chord {ch.source()!r}: import errors')
    check(got is not None, f'chord {ch.source()!r}: line dropped')
    parts = got.split(' ')
    check(len(parts) == len(ch.notes), f'chord {ch.source()!r}: {len(parts)} notes exported ({got!r})')
    union = set(ch.shared_decs())
    for n, p in zip(ch.notes, parts):
        pd, *ds = p.split(cells.DS)
        check(pd == n.basic(), f'chord {ch.source()!r}: note {n.source()!r} exported its duration/pitch/accidental as {pd!r}, expected {n.basic()!r}')
        check(set(n.dec_set()) <= set(ds) <= union and len(ds) == len(set(ds)),
              f'chord {ch.source()!r}: note {n.source()!r} has signifiers {ds}, own {n.dec_set()}, chord union {sorted(union)}')
    return True


# ------------------------------------------------------------------ C03.c barlines
def ob_c(k: int) -> bool:
    n = slots.size(G.g_bar())
    assume(0 <= k < n)
    return _c_body(choose(k, n))


@native
def _c_body(k):
    bar = G.bar(slots.unrank(G.g_bar(), k))
    ctx.known('KF-C03-hidden-barline', bar.hidden)
    src = bar.source()
    if src in ('===',) or (bar.double and bar.type == '=' and not bar.number and not bar.ab and not bar.hidden):
        pass
    errs, got = _export_cell(src, kp.Encoding.normalizedKern)
    check(not errs, f'barline {src!r}: import errors {[str(e) for e in errs]}')
    exp = bar.exported()
    check(got == exp, f'barline {src!r}: exported {got!r}, expected {exp!r} (type kept, number dropped)')
    errs, gote = _export_cell(src, kp.Encoding.eKern)
    check(gote == exp, f'barline {src!r}: extended export {gote!r}, expected {exp!r}')
    return True


class StubCtx:
    """Exposes exactly the accessors BaseANTLRSpineParserListener.exitBarline uses."""

    def __init__(self, n_equal, type_text, fermata_text, text):
        self._n, self._t, self._f, self._text = n_equal, type_text, fermata_text, text

    def EQUAL(self, i):
        return object() if i < self._n else None

    def barLineType(self):
        return _Txt(self._t) if self._t is not None else None

    def fermata(self):
        return _Txt(self._f) if self._f is not None else None

    def getText(self):
        return self._text


class _Txt:
    def __init__(self, t):
        self.t = t

    def getText(self):
        return self.t


def ob_c2(double: bool, has_type: bool, ty: str, has_fermata: bool, number: str, hidden: bool) -> bool:
    """Listener tier: exitBarline with arbitrary barLineType / number texts (symbolic strings)."""
    assume(len(ty) <= ctx.pick(4, 6) and len(number) <= 3)
    assume('-' not in ty and '-' not in number)
    assume(not (has_type and len(ty) == 0))
    neq = 2 if double else 1
    fer = ';' if has_fermata else None
    full = '=' * neq + number + ('-' if hidden else '') + (ty if has_type else '') + (';' if has_fermata else '')
    lst = KernSpineListener()
    try:
        lst.exitBarline(StubCtx(neq, ty if has_type else None, fer, full))
    except (AttributeError, TypeError):
        assume(False)            # the callback uses accessors the scripted context does not offer: stub contract broken, path discarded
    tok = lst.token
    check(isinstance(tok, tk.BarToken) and tok.category == tk.TokenCategory.BARLINES, 'not a BarToken')
    exp = '=' * neq + (ty if has_type else '') + (';' if has_fermata else '')
    check(tok.encoding == exp and tok.export() == exp, lambda: f'exitBarline built {concrete(tok.encoding)!r}, expected {concrete(exp)!r}')
    check(bool(tok.hidden) == bool(hidden), 'hidden flag')
    return True


# ------------------------------------------------------------------ C03.a non-note cells verbatim (symbolic text, stub parser)
KINDS = ((tk.SimpleToken, tk.TokenCategory.LYRICS), (tk.SimpleToken, tk.TokenCategory.DYNAMICS), (tk.SimpleToken, tk.TokenCategory.HARMONY),
         (tk.SimpleToken, tk.TokenCategory.FINGERING), (tk.SimpleToken, tk.TokenCategory.OTHER), (tk.ClefToken, None),
         (tk.KeySignatureToken, None), (tk.TimeSignatureToken, None), (tk.MeterSymbolToken, None), (tk.SimpleToken, tk.TokenCategory.OTHER_CONTEXTUAL),
         (tk.SimpleToken, tk.TokenCategory.ENGRAVED_SYMBOLS), (tk.SimpleToken, tk.TokenCategory.STRUCTURAL), (tk.FieldCommentToken, None))


class _KindImporter:
    def __init__(self, kind):
        self.kind = kind

    def import_token(self, text):
        stubs.used()
        cls, cat = KINDS[self.kind]
        return cls(text) if cat is None else cls(text, cat)


def ob_a(kind: int, s: str, col: int) -> bool:
    """Any text a spine importer hands back as a non-note token is exported verbatim in its place."""
    assume(0 <= kind < len(KINDS))
    assume(0 <= col < 2)
    assume(1 <= len(s) <= ctx.pick(6, 8))
    assume(not s.startswith('*') and not s.startswith('!') and not s.startswith('='))   # Importer.run / placeholder classes by Humdrum syntax
    assume(s != '.')
    assume('\t' not in s and '\n' not in s and '\r' not in s)     # a cell cannot contain the column / line separators
    ctx.known('KF-C03-separator-chars', '@' in s or '·' in s)
    k = choose(kind, len(KINDS))
    if k == len(KINDS) - 1:
        s = '!' + s               # field comment cells go through Importer.run's own branch
    rows = [['**text', '**text'], ['la', 'li'], ['lu', 'le'], ['*-', '*-']]
    rows[2][col] = s
    with stubs.stub_importers(lambda header: _KindImporter(k)):
        imp = Importer()
        doc = imp.run(rows)
    if k != len(KINDS) - 1:
        stubs.require_used()
    got = kp.dumps(doc)
    grid = [ln.split('\t') for ln in got.split('\n') if ln != '']
    check(len(grid) == 4 and len(grid[2]) == 2, lambda: f'grid changed: {concrete(got)!r}')
    check(grid[2][col] == s, lambda: f'cell {concrete(s)!r} (token class {KINDS[k][0].__name__}) exported as {concrete(grid[2][col])!r}')
    check(grid[2][1 - col] == rows[2][1 - col] and grid[1] == rows[1], 'a neighbouring cell changed')
    return True


# ------------------------------------------------------------------ C03.e interpretations / text cells through the real parser
SPINE_TEXT = {'**text': ['la', 'Ky-', '-ri-', 'e', "l'a", 'a b', 'Dó', '|la', 'x1'], '**dynam': ['f', 'pp', 'mf', '<', '>', '[', 'sfz', 'cresc.'],
              '**dyn': ['f', 'p'], '**harm': ['C7', 'G', 'V7', 'iib', 'Cmaj7', 'I6/4'], '**mxhm': ['C major', 'G dominant'],
              '**fing': ['1', '2', '5', '1-2'], '**foo': ['zig', '12', 'a-b'], '**root': ['C', 'G']}


@native
def _e_cases():
    out = []
    for t in sorted(ctx.DATA['alphabets']['tandem']):
        if t in ('*', '.'):
            continue
        out.append(('**kern', t))
    for h, texts in SPINE_TEXT.items():
        for t in texts:
            out.append((h, t))
        for t in ('*clefG2', '*M4/4', '*k[f#]', '*staff1', '=||', '*xywh-1:10,20,30,40'):
            out.append((h, t))
    return out


_E = []


def ob_e(k: int, col: int) -> bool:
    global _E
    if not _E:
        _E = _e_cases()
    assume(0 <= k < len(_E))
    assume(0 <= col < 2)
    return _e_body(choose(k, len(_E)), choose(col, 2))


@native
def _e_body(k, col):
    h, t = _E[k]
    if h == '**root' and not t.startswith(('*', '=')):
        return True       # **root parses with the kern grammar by design; free text there is outside the property
    heads = [h, '**kern'] if col == 0 else ['**kern', h]
    other = '4c'
    row = [t, '*' if t.startswith('*') else ('=||' if t.startswith('=') else other)]
    if col == 1:
        row.reverse()
    text = '\t'.join(heads) + '\n' + '\t'.join(row) + '\n' + '\t'.join(['4d', '4e'] if h in ('**kern', '**root') else (['x', '4e'] if col == 0 else ['4e', 'x'])) + '\n*-\t*-\n'
    doc, errs = kp.loads(text)
    check(not errs, f'{t!r} under {h}: import errors {[str(e) for e in errs]}')
    out = kp.dumps(doc, spine_types=heads)
    grid = [ln.split('\t') for ln in out.split('\n') if ln != '']
    check(len(grid) == 4, f'{t!r} under {h}: {len(grid)} lines exported for 4')
    exp = t
    if t.startswith('='):
        exp = cells.Bar(type=t[1:]).exported()
    check(grid[1][col] == exp, f'{t!r} under {h}: exported as {grid[1][col]!r}')
    check(grid[0] == heads, f'header line {grid[0]}')
    return True


# ------------------------------------------------------------------ C03.d grid: documents with inserted null rows / comments
INSERTS = (None, ('null', '.'), ('null', '*'), ('gcomment', '!! global'), ('gcomment', '!!!OTL: t'))


def ob_d(d: int, pos: int, ins: int) -> bool:
    assume(0 <= d < len(POOL))
    assume(0 <= ins < len(INSERTS))
    di = choose(d, len(POOL))
    n = len(POOL[di].rows)
    assume(0 <= pos < n - 2)
    return _d_body(di, choose(pos, n - 2), choose(ins, len(INSERTS)))


@native
def _d_body(di, pos, ins):
    D = POOL[di]
    rows = list(D.rows)
    what = INSERTS[ins]
    first = 1 if rows[0][0].kind == 'gcomment' else 0
    at = first + 1 + pos
    if at >= len(rows) - (1 if rows[-1][0].kind == 'gcomment' else 0) - 0:
        return True
    if what is not None:
        nxt = at
        while rows[nxt][0].kind == 'gcomment':
            nxt += 1
        width = len(rows[nxt])
        # a null row must match the width of the row it precedes; '*' rows only where an interpretation row is legal
        if what[0] == 'null':
            rows.insert(at, [cells.Null(what[1])] * width)
        else:
            rows.insert(at, [cells.GComment(what[1])])
    D2 = cells.Doc(rows)
    text = D2.text()
    doc, errs = kp.loads(text)
    check(not errs, f'import errors {[str(e) for e in errs]} on {text!r}')
    heads = sorted({c.text for r in rows for c in r if c.kind == 'header'})
    for enc, e in (('kern', kp.Encoding.normalizedKern), ('ekern', kp.Encoding.eKern)):
        got = cells.parse_grid(kp.dumps(doc, encoding=e, spine_types=heads))
        exp = D2.expected(enc)
        check(got == exp, f'{enc} export of {text!r}: {got} expected {exp}')
    # one options object used for a one-spine score first and for this document afterwards: still the whole grid
    from kernpy.core.exporter import Exporter, ExportOptions
    o = ExportOptions(spine_types=list(heads) + ['**kern'])
    Exporter().export_string(kp.loads('**kern\n4c\n*-\n')[0], o)
    got = cells.parse_grid(Exporter().export_string(doc, o))
    check(got == D2.expected('kern'), f'an ExportOptions object first used on a one-spine score then exports {got}, expected {D2.expected("kern")}')
    return True


# ------------------------------------------------------------------ C03.f neighbouring cells do not leak into each other
PAIR_POOL = (cells.Note('8', dots=1, pitch='c'), cells.Note('', mark='', pitch='dd', decs=((3, 'q'),)), cells.Rest(''), cells.Note('4', pitch='e', acc='-'),
             cells.Note('', pitch='cc', acc='n', decs=((3, 'L'),)), cells.Rest('2', dots=1), cells.Note('', pitch='GG', decs=((3, 'q'),)),
             cells.Note('', pitch='f', acc='#'), cells.Note('16', dots=1, pitch='gg', acc='#', decs=((3, 'J'),)),
             cells.Chord((cells.Note('4', pitch='c'), cells.Note('4', pitch='e'))), cells.Bar(number='7', type='||'),
             cells.Bar(number='7', type=':|!', fermata=True), cells.Bar(double=True), cells.Bar(number='12', ab='a'))


def ob_f(i: int, j: int, arr: int) -> bool:
    n = len(PAIR_POOL)
    assume(0 <= i < n and 0 <= j < n and 0 <= arr < 3)
    return _f_body(choose(i, n), choose(j, n), choose(arr, 3))


@native
def _f_body(i, j, arr):
    a, b = PAIR_POOL[i], PAIR_POOL[j]
    if isinstance(a, cells.Bar) != isinstance(b, cells.Bar) and arr == 1:
        return True            # a barline line holds barlines in every spine
    if arr == 0:       # consecutive rows of one spine
        text = '**kern\n' + a.source() + '\n' + b.source() + '\n*-\n'
        exp = [[cells.export_cell(a, 'ekern')], [cells.export_cell(b, 'ekern')]]
    elif arr == 1:     # neighbouring spines of one row
        text = '**kern\t**kern\n' + a.source() + '\t' + b.source() + '\n*-\t*-\n'
        exp = [[cells.export_cell(a, 'ekern'), cells.export_cell(b, 'ekern')]]
    else:              # second spine, row below
        text = '**kern\t**kern\n' + a.source() + '\t4c\n4d\t' + b.source() + '\n*-\t*-\n'
        if isinstance(a, cells.Bar) or isinstance(b, cells.Bar):
            return True
        exp = [[cells.export_cell(a, 'ekern'), '4@c'], ['4@d', cells.export_cell(b, 'ekern')]]
    doc, errs = kp.loads(text)
    check(not errs, f'import errors {[str(e) for e in errs]} on {text!r}')
    got = cells.parse_grid(kp.dumps(doc, encoding=kp.Encoding.eKern))[1:-1]
    check(got == exp, f'{text!r}: exported cells {got}, each cell on its own is {exp} (content leaked between neighbouring cells)')
    return True


def _desc_b(grid, k):
    idx = slots.unrank(_dims(grid), k)
    return {'cell': (G.plain, G.marks, G.one_dec, G.disp_note, G.rest)[grid](idx).source()}


# ------------------------------------------------------------------ C03.g long scores
LONG = ((300, 0), (1200, 600), (4000, 37))


def ob_g(k: int) -> bool:
    n = ctx.pick(2, 3)
    assume(0 <= k < n)
    return _g_body(choose(k, n))


@native
def _g_body(k):
    from sv.ref import longdoc
    D = longdoc.long_doc(LONG[k][0], True, LONG[k][1])
    doc, errs = kp.loads(D.text())
    check(not errs, f'import errors on a score of {LONG[k][0]} data rows: {[str(e) for e in errs][:3]}')
    for enc, e in (('kern', kp.Encoding.normalizedKern), ('ekern', kp.Encoding.eKern)):
        got = cells.parse_grid(kp.dumps(doc, spine_types=['**kern', '**text'], encoding=e))
        exp = D.expected(enc)
        if got != exp:
            bad = next((i for i, (g, x) in enumerate(zip(got, exp)) if g != x), min(len(got), len(exp)))
            check(False, f'score of {LONG[k][0]} data rows, {enc}: {len(got)} exported lines vs {len(exp)} expected; first difference at line {bad}: '
                         f'{got[bad] if bad < len(got) else None} vs {exp[bad] if bad < len(exp) else None}')
    return True


# ------------------------------------------------------------------ C03.h first call of an interpreter, then the observed exports
FRESH_REQ = [{'default': {}, 'extended': {'encoding': 'eKern'}}, {'default': {}, 'extended': {'encoding': 'eKern'}}]


def ob_h(pre: int, d: int) -> bool:
    from sv.ref import fresh
    assume(0 <= pre < len(fresh.PRELUDES) and 0 <= d < 2)
    return _h_body(choose(pre, len(fresh.PRELUDES)), choose(d, 2))


@native
def _h_body(pre, d):
    from sv.ref import fresh, docs as _docs
    P = _docs.pool()
    D, other = (P[0], P[1]) if d == 0 else (P[1], P[0])
    bad = fresh.mismatches(pre, D, other.text(), FRESH_REQ[d])
    check(not bad, '; '.join(bad)[:1500])
    return True


# ------------------------------------------------------------------ C03.i spine-operator lines around sections that hold only null lines
I_LAYOUTS = []


def _i_layouts():
    if not I_LAYOUTS:
        for heads in (('**kern',), ('**kern', '**text'), ('**kern', '**kern')):
            for lay in sp.enumerate_layouts(len(heads), 3 if len(heads) == 1 else 2):
                if lay:
                    I_LAYOUTS.append((heads, lay))
    return I_LAYOUTS


def ob_i(layout: int, keep: int) -> bool:
    L = _i_layouts()
    assume(0 <= layout < len(L) and 0 <= keep < 3)
    return _i_body(choose(layout, len(L)), choose(keep, 3))


@native
def _i_body(i, keep):
    """Every spine-operator layout in which the lines between the operator lines hold only null tokens (keep = 0), only null
    tokens except below the last operator line (1), or null tokens in the first column only (2): the null lines are dropped, every
    other cell -- each spine operator among them -- is written in place."""
    heads, lay = _i_layouts()[i]
    rows = sp.build_rows(list(heads), lay)
    data_idx = [r for r, row in enumerate(rows) if r > 0 and not row[0].startswith(('*', '!'))]
    for n, r in enumerate(data_idx):
        if r == 1:
            continue                      # the first data line stays (it opens the score)
        if keep == 0 or (keep == 1 and n < len(data_idx) - 1):
            rows[r] = ['.'] * len(rows[r])
        elif keep == 2:
            rows[r] = ['.'] + rows[r][1:]
    text = sp.to_text(rows)
    doc, errs = kp.loads(text)
    check(not errs, f'import errors on {text!r}')
    got = cells.parse_grid(kp.dumps(doc, spine_types=sorted(set(heads))))
    exp = [r for r in rows if not all(c == '.' for c in r)]
    check(got == exp, f'{text!r}: exported {got}, expected every line except the all-null ones: {exp}')
    return True


OBLIGATIONS = [
    Ob(id='C03.h', fn=ob_h, title='histories from the first call of a fresh interpreter: the default (and extended) export still conserves every cell',
       shard_of=lambda pre, d: pre, shards={'quick': 5, 'thorough': 5}, budget_s={'quick': 150, 'thorough': 600}, native_body=True,
       witnesses=[{'pre': 0, 'd': 0}], min_confirmed=15, enumerated='first call (10 kinds, incl. none), document (2)',
       realized_at=['fresh python interpreter per history (subprocess)'],
       bounds={'quick': '10 first calls x 2 pool documents (kern + text with chord / decorations / accidentals; kern + dynam + harm)', 'thorough': 'same'}),
    Ob(id='C03.i', fn=ob_i, title='spine-operator lines are conserved when the sections between them hold only null lines',
       shard_of=lambda layout, keep: layout, shards={'quick': 8, 'thorough': 8}, budget_s={'quick': 120, 'thorough': 600},
       witnesses=[{'layout': 0, 'keep': 0}], min_confirmed=100, enumerated='layout selector (1-2 spines, operator depth 3 / 2), which lines are null (3 plans)',
       bounds={'quick': 'every spine-operator layout of one **kern spine up to 3 operator lines and of kern + text / kern + kern up to 2, x 3 null-line plans', 'thorough': 'same'}),
    Ob(id='C03.g', fn=ob_g, title='grid and cell content of long scores (hundreds to thousands of lines) against the cell model',
       shard_of=lambda k: k, shards={'quick': 2, 'thorough': 3}, budget_s={'quick': 120, 'thorough': 600}, native_body=True,
       witnesses=[{'k': 0}], min_confirmed=2, enumerated='score length',
       bounds={'quick': 'kern + text scores of 300 and 1200 data rows with barlines, rests, dotted and decorated notes, field and global comments, one split + join',
               'thorough': '+ 4000 data rows'}),
    Ob(id='C03.f', fn=ob_f, title='a cell\'s export does not depend on the cell parsed before it (durationless notes, bare rests, chords, barlines)',
       shard_of=lambda i, j, arr: i, shards={'quick': 4, 'thorough': 4}, budget_s={'quick': 120, 'thorough': 600},
       witnesses=[{'i': 0, 'j': 1, 'arr': 0}], min_confirmed=200, enumerated='ordered pair from a 14-cell pool x arrangement (rows of one spine, neighbouring spines, diagonal)',
       bounds={'quick': '14 x 14 ordered pairs x 3 arrangements (barline lines with different barlines per spine included)', 'thorough': 'same'}),
    Ob(id='C03.a', fn=ob_a, title='non-note cells verbatim: arbitrary text behind a stubbed spine importer',
       shard_of=lambda kind, s, col: kind, shards={'quick': 13, 'thorough': 13}, budget_s={'quick': 170, 'thorough': 1800},
       witnesses=[{'kind': 0, 's': 'la', 'col': 0}, {'kind': 12, 's': 'x', 'col': 1}], min_confirmed=26,
       symbolic='cell text (arbitrary Unicode string of 1..6 chars quick / 1..8 thorough)', enumerated='token class selector (13 classes), column',
       stub_optional=True, stubs=['spine importer returning kernpy\'s own token classes for the given text (SimpleToken / ClefToken / ... / FieldCommentToken); rows handed to Importer.run'],
       assumptions=['cell text does not start with * ! = and is not "." (those are other cell classes by Humdrum syntax)', 'cell text contains no TAB / CR / LF'],
       bounds={'quick': 'text <= 6 chars', 'thorough': 'text <= 8 chars'}),
    Ob(id='C03.b', fn=ob_b, title='notes and rests keep duration marks, pitch letters, accidental and signifiers (slot grids)',
       shard_of=lambda grid, k: k, shards={'quick': 16, 'thorough': 16}, budget_s={'quick': 170, 'thorough': 1800},
       witnesses=[{'grid': 0, 'k': 0}, {'grid': 4, 'k': 7}], min_confirmed=1500, enumerated='grid selector, slot index',
       bounds={'quick': 'durations(16) x dots 0-2 x 3 pitches x 8 accidentals; duration marks q qq p P; every accepted signifier x 4 positions x 3 base notes; display suffixes; rests x 5 durations x dots x rest signifiers x 2 positions',
               'thorough': '9 pitches, all durations for rests'}, describe=_desc_b),
    Ob(id='C03.b2', fn=ob_b2, title='chord notes keep their material and at least their own signifiers',
       shard_of=lambda k: k, shards={'quick': 4, 'thorough': 4}, budget_s={'quick': 120, 'thorough': 600},
       witnesses=[{'k': 0}], min_confirmed=300, enumerated='chord slot index',
       bounds={'quick': 'chords of 2-3 notes from 7 note/rest forms', 'thorough': 'same'}),
    Ob(id='C03.c', fn=ob_c, title='barlines keep their type and fermata, lose only the number',
       shard_of=lambda k: k, shards={'quick': 8, 'thorough': 8}, budget_s={'quick': 120, 'thorough': 600},
       witnesses=[{'k': 0}], min_confirmed=400, enumerated='barline slot index',
       bounds={'quick': '{=,==} x number {none,1,12} x {none,a,b,ab} x hidden x 11 bar-line types (+none) x fermata', 'thorough': 'same'}),
    Ob(id='C03.c2', fn=ob_c2, title='exitBarline with arbitrary type / number texts (listener tier)',
       budget_s={'quick': 120, 'thorough': 600}, witnesses=[{'double': False, 'has_type': True, 'ty': '||', 'has_fermata': True, 'number': '3', 'hidden': False}],
       min_confirmed=8, symbolic='barLineType text, number text (strings), flags',
       stub_optional=True, stubs=['StubCtx exposing EQUAL(i), barLineType(), fermata(), getText() to the real KernSpineListener.exitBarline'],
       bounds={'quick': 'type <= 4 chars, number <= 3 chars', 'thorough': 'type <= 6 chars'}),
    Ob(id='C03.d', fn=ob_d, title='grid: pool documents with inserted null rows / global comments',
       shard_of=lambda d, pos, ins: pos, shards={'quick': 8, 'thorough': 8}, budget_s={'quick': 120, 'thorough': 600},
       witnesses=[{'d': 0, 'pos': 2, 'ins': 1}], min_confirmed=100, enumerated='document, insertion position, inserted row kind',
       bounds={'quick': '6 pool documents x every row position x {nothing, ". row", "* row", 2 global comments}', 'thorough': 'same'}),
    Ob(id='C03.e', fn=ob_e, title='interpretations and text cells verbatim through the real importers',
       shard_of=lambda k, col: k, shards={'quick': 8, 'thorough': 8}, budget_s={'quick': 120, 'thorough': 600},
       witnesses=[{'k': 0, 'col': 0}], min_confirmed=100, enumerated='(spine type, cell text) corpus index, column',
       bounds={'quick': 'every tandem interpretation the parser accepts from the candidate list + free texts under 8 spine types', 'thorough': 'same'}),
]
