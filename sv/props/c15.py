"""C15  Transposing a document moves pitches and nothing else.

Anchors: Document.to_transposed, Document.clone (document.py); transposer.transpose.
Oracle: letter/semitone pitch model (sv/ref/pitch.py) + cell model.
"""
from sv.engine import ctx
from sv.engine.ob import Ob
from sv.engine.xh import assume, check, choose, concrete, native
from sv.ref import cells
from sv.ref import pitch as rp
from sv.ref.cells import Bar, Chord, Doc, FieldComment, Header as H, Note, Null, Op, Rest
from sv.ref.docs import sig, lyr, dyn, tandem

import kernpy as kp

INAMES = rp.expected_interval_names()
NI = len(INAMES)
T = '*-'

META = {
    'outside': ['documents outside the pool; octaves beyond those of the pool notes',
                'results that are not spellable with at most two accidentals: the call may raise (property text)'],
    'assumptions': ['the claimed core is single notes without explicit accidentals (property text); the other classes are tracked as findings'],
}


def _core_docs():
    D = []
    D.append(Doc([[H('**kern'), H('**text')], [sig('*clefG2', 'CLEF'), Null('*')], [sig('*M4/4', 'TIME_SIGNATURE'), Null('*')], [Bar(number='1'), Bar(number='1')],
                  [Note('4', pitch='c', decs=((3, 'L'),)), lyr('la')], [Note('8', dots=1, pitch='dd', decs=((3, 'J'), (3, ';'))), Null('.')],
                  [Rest('4'), lyr('li')], [FieldComment('!x'), FieldComment('!y')], [Note('2', dots=2, pitch='B', decs=((0, '('),)), lyr('lu')], [Rest('4', dots=3), Null('.')],
                  [Bar(number='2', type='||'), Bar(number='2', type='||')], [Note('16', mark='q', pitch='GG'), Null('.')], [Note('1', pitch='f'), lyr('le')],
                  [Bar(double=True), Bar(double=True)], [Op(T), Op(T)]]))
    D.append(Doc([[H('**kern'), H('**dynam'), H('**kern')], [sig('*clefF4', 'CLEF'), Null('*'), sig('*clefG2', 'CLEF')],
                  [tandem('*MM120', 'OTHER_CONTEXTUAL'), Null('*'), Null('*')], [Bar(number='1'), Bar(number='1'), Bar(number='1')],
                  [Note('4', pitch='E'), dyn('f'), Note('4', pitch='ee')], [Op('*^'), Null('*'), Null('*')],
                  [Note('4', pitch='A'), Note('4', pitch='C'), dyn('p'), Note('4', pitch='aaa')], [Op('*v'), Op('*v'), Null('*'), Null('*')],
                  [Note('2', pitch='FF'), Null('.'), Rest('2')], [Op(T), Op(T), Op(T)]]))
    D.append(Doc([[H('**kern')], [Note('4', pitch='b')], [Note('4', pitch='e')], [Note('4', pitch='a')], [Note('4', pitch='d')], [Note('4', pitch='g')],
                  [Note('4', pitch='c')], [Note('4', pitch='f')], [Op(T)]]))
    # every clef sign the grammar knows (percussion and tablature clefs included), changing along the spine: the letters of a **kern
    # note are pitches whatever clef they are drawn under
    D.append(Doc([[H('**kern'), H('**kern')], [sig('*clefP', 'CLEF'), sig('*clefT', 'CLEF')], [Bar(number='1'), Bar(number='1')],
                  [Note('4', pitch='c'), Note('4', pitch='E')], [Note('8', pitch='f', decs=((3, 'L'),)), Note('8', pitch='GG')],
                  [sig('*clefC3', 'CLEF'), sig('*clefP', 'CLEF')], [Note('4', pitch='a'), Note('4', pitch='dd')],
                  [Op('*^'), Null('*')], [Note('4', pitch='b'), Note('4', pitch='D'), Note('2', pitch='g')], [Op('*v'), Op('*v'), Null('*')],
                  [sig('*clefG2', 'CLEF'), Null('*')], [Note('2', pitch='e'), Note('2', pitch='cc')], [Op(T), Op(T)]]))
    return D


def _tracked_docs():
    return {
        'accidentals': Doc([[H('**kern')], [Note('4', pitch='c', acc='#')], [Note('4', pitch='e', acc='-')], [Note('4', pitch='g')], [Op(T)]]),
        'chords': Doc([[H('**kern')], [Chord((Note('4', pitch='c'), Note('4', pitch='e')))], [Note('4', pitch='g')], [Op(T)]]),
        'chords2': Doc([[H('**kern'), H('**kern')], [Note('4', pitch='d'), Note('4', pitch='b')], [Chord((Note('4', pitch='c'), Note('4', pitch='e'))), Rest('4')],
                        [Note('4', pitch='g'), Note('2', pitch='A')], [Bar(number='2'), Bar(number='2')], [Note('8', pitch='f'), Chord((Note('8', pitch='a'), Note('8', pitch='cc')))],
                        [Note('8', pitch='e'), Note('8', pitch='dd')], [Op(T), Op(T)]]),
        'source': Doc([[H('**kern')], [Note('4', pitch='c')], [Note('4', pitch='d')], [Op(T)]]),
    }


DOCS = []
TRACKED = {}


def load(tier):
    global DOCS, TRACKED
    DOCS = _core_docs()
    TRACKED = _tracked_docs()


def _pitch_of(letters):
    L = 'cdefgab'.index(letters[0].lower())
    octave = 3 + len(letters) if letters[0].islower() else 4 - len(letters)
    return L, octave


def _dir(up):
    return 'up' if up else 'down'


def expected_transposed(D, iname, up, transpose_chords=True):
    """(rows of the expected ekern export, spellable?)"""
    d, s = rp.interval_sizes(iname)
    ok = True

    def tr_note(n):
        nonlocal ok
        if n.is_rest:
            return n
        L, o = _pitch_of(n.pitch)
        alt = {'': 0, '#': 1, '##': 2, '-': -1, '--': -2, 'n': 0}[n.acc]
        L2, A2, O2 = rp.transpose(L, alt, o, d, s, up)
        if not -2 <= A2 <= 2:
            ok = False
            return n
        sp_ = rp.humdrum(L2, A2, O2)
        letters = ''.join(ch for ch in sp_ if ch.isalpha())
        return Note(n.dur, n.dots, n.mark, letters, sp_[len(letters):], '', n.decs, n.kind)
    rows = []
    for r in D.rows:
        rows.append([tr_note(c) if isinstance(c, Note) else (Chord(tuple(tr_note(x) for x in c.notes)) if isinstance(c, Chord) and transpose_chords else c) for c in r])
    return Doc(rows), ok


def _kern_grid(D, heads):
    # the transposed pitch is ONE sub-token (letters + accidental): compare in the plain encoding
    return D.expected('kern')


def ob_a(d: int, iv: int, up: bool) -> bool:
    assume(0 <= d < len(DOCS) and 0 <= iv < NI)
    return _a_body(choose(d, len(DOCS)), choose(iv, NI), bool(up))


@native
def _a_body(di, iv, up):
    D = DOCS[di]
    iname = INAMES[iv]
    text = D.text()
    heads = sorted({c.text for r in D.rows for c in r if c.kind == 'header'})
    src_export = kp.dumps(kp.loads(text)[0], spine_types=heads)
    doc, errs = kp.loads(text)
    check(not errs, 'import errors')
    E, spellable = expected_transposed(D, iname, up)
    try:
        t = doc.to_transposed(iname, _dir(up))
    except Exception as e:
        check(not spellable, f'to_transposed({iname!r}, {_dir(up)!r}) raised {type(e).__name__}: {e} although every result is spellable')
        return True
    if not spellable:
        return True            # some result needs a third accidental: unconstrained
    t_export = kp.dumps(t, spine_types=heads)
    got = cells.parse_grid(t_export)
    exp = E.expected('kern')
    check(got == exp, f'{iname} {_dir(up)}: transposed export {got}, expected {exp}')
    check(t.measure_start_tree_stages == doc.measure_start_tree_stages and len(t.tree.stages) == len(doc.tree.stages), 'grid / measure index changed')
    back = t.to_transposed(iname, _dir(not up))
    check(kp.dumps(back, spine_types=heads) == src_export, f'{iname} {_dir(up)} then {_dir(not up)}: {kp.dumps(back, spine_types=heads)!r} != source export {src_export!r}')
    # a second, fresh transposition in the SAME direction gives the same answer (no state kept between calls)
    again = kp.loads(text)[0].to_transposed(iname, _dir(up))
    check(kp.dumps(again, spine_types=heads) == t_export, 'the same transposition of a fresh import gives a different result')
    return True


LONG = ((300, 0), (1200, 600), (4000, 37))
LONG_IV = (('M2', True), ('m3', False), ('P5', True), ('octave', False), ('A4', True), ('d5', False))
_LONG = {}


def ob_d(k: int, j: int) -> bool:
    n = ctx.pick(2, 3)
    m = ctx.pick(4, 6)
    assume(0 <= k < n and 0 <= j < m)
    return _d_body(choose(k, n), choose(j, m))


@native
def _d_body(k, j):
    from sv.ref import longdoc
    if k not in _LONG:
        _LONG[k] = longdoc.long_doc(LONG[k][0], True, LONG[k][1])
    D = _LONG[k]
    iname, up = LONG_IV[j]
    heads = ['**kern', '**text']
    doc, errs = kp.loads(D.text())
    check(not errs, 'import errors')
    E, spellable = expected_transposed(D, iname, up)
    check(spellable, 'generator: the long score only has naturals, every interval of LONG_IV is spellable')
    try:
        t = doc.to_transposed(iname, _dir(up))
    except Exception as e:
        check(False, f'score of {LONG[k][0]} data rows: to_transposed({iname!r}, {_dir(up)!r}) raised {type(e).__name__}: {str(e)[:200]}')
    got = cells.parse_grid(kp.dumps(t, spine_types=heads))
    exp = E.expected('kern')
    if got != exp:
        bad = next((i for i, (g, x) in enumerate(zip(got, exp)) if g != x), min(len(got), len(exp)))
        check(False, f'score of {LONG[k][0]} data rows, {iname} {_dir(up)}: {len(got)} lines vs {len(exp)} expected; first difference at line {bad}: '
                     f'{got[bad] if bad < len(got) else None} vs {exp[bad] if bad < len(exp) else None}')
    back = t.to_transposed(iname, _dir(not up))
    src = cells.parse_grid(kp.dumps(back, spine_types=heads))
    check(src == D.expected('kern'), f'score of {LONG[k][0]} data rows: {iname} {_dir(up)} then {_dir(not up)} does not restore the source export')
    return True


CLASSES = ('core', 'accidentals', 'chords', 'source', 'chords2')


def ob_b(cls: int, iv: int, up: bool) -> bool:
    """Classes the property tracks as findings: notes with explicit accidentals, chord notes, state of the source document."""
    assume(0 <= cls < len(CLASSES) and 0 <= iv < NI)
    return _b_body(choose(cls, len(CLASSES)), choose(iv, NI), bool(up))


@native
def _b_body(ci, iv, up):
    cname = CLASSES[ci]
    iname = INAMES[iv]
    ctx.known('KF-C15-accidentals-not-transposed', cname == 'accidentals')
    # open finding 'chord notes are not transposed': while it is open the class is NOT excluded -- the chord cells are expected as in
    # the source (the recorded defect), every other cell of the document as the property says (a single note below a chord included)
    chords_as_source = cname in ('chords', 'chords2') and 'KF-C15-chords-not-transposed' in ctx.KF_ACTIVE
    ctx.known('KF-C15-source-rewritten', cname == 'source')
    D = TRACKED.get(cname, DOCS[2])
    text = D.text()
    doc, _ = kp.loads(text)
    before = kp.dumps(doc)
    E, spellable = expected_transposed(D, iname, up, transpose_chords=not chords_as_source)
    try:
        t = doc.to_transposed(iname, _dir(up))
    except Exception as e:
        check(not spellable, f'{cname}: to_transposed({iname}, {_dir(up)}) raised {type(e).__name__}: {e}')
        t = None
    if cname == 'source':
        check(kp.dumps(doc) == before, f'the SOURCE document exports {kp.dumps(doc)!r} after to_transposed({iname}, {_dir(up)}), before the call {before!r}')
        return True
    if t is None or not spellable:
        return True
    got = cells.parse_grid(kp.dumps(t))
    exp = E.expected('kern')
    check(got == exp, f'{cname}: {iname} {_dir(up)}: transposed export {got}, expected {exp}')
    return True


DIRS = ('up', 'down', 'Up', '', 'UP', 'dow')
BAD_NAMES = ('', 'P', 'p5', 'M22', 'P8', 'octav', 'X', 'm1', 'M4', 'A8', '5', 'P5 ', 'm5', 'P2', 'octave ')


def ob_c(nsel: int, dsel: int) -> bool:
    """Unknown interval names / directions are rejected with ValueError (never silently ignored or clamped)."""
    nn = NI + len(BAD_NAMES)
    assume(0 <= nsel < nn and 0 <= dsel < len(DIRS))
    return _c_body(choose(nsel, nn), choose(dsel, len(DIRS)))


@native
def _c_body(ni, di):
    name = INAMES[ni] if ni < NI else BAD_NAMES[ni - NI]
    direction = DIRS[di]
    doc = _cdoc()
    valid = name in INAMES and direction in ('up', 'down')
    try:
        doc.to_transposed(name, direction)
    except ValueError:
        check(not valid, f'ValueError for the valid call to_transposed({name!r}, {direction!r})')
        return True
    except KeyError:
        check(valid, f'to_transposed({name!r}, {direction!r}) raised KeyError instead of ValueError')
        return True
    check(valid, f'to_transposed({name!r}, {direction!r}) was accepted')
    return True


_CD = []


@native
def _cdoc():
    _CD.clear()
    _CD.append(kp.loads('**kern\n4c\n*-\n')[0])
    return _CD[0]


def _desc(d, iv, up):
    return {'document': DOCS[d].text(), 'interval': INAMES[iv], 'direction': _dir(up)}


OBLIGATIONS = [
    Ob(id='C15.a', fn=ob_a, title='claimed core: same grid, durations, signifiers, rests, barlines, interpretations, other spines; pitches by the model; round trip',
       shard_of=lambda d, iv, up: iv, shards={'quick': 8, 'thorough': 8}, budget_s={'quick': 150, 'thorough': 600},
       witnesses=[{'d': 0, 'iv': 5, 'up': True}], min_confirmed=200, enumerated='document, interval (40), direction',
       bounds={'quick': '3 documents (two spines + text, three spines with split/join + dynam, 7 naturals) x 40 intervals x 2 directions', 'thorough': 'same'},
       describe=_desc),
    Ob(id='C15.d', fn=ob_d, title='long scores: every note of a score of hundreds to thousands of lines is transposed, nothing else changes, round trip',
       shard_of=lambda k, j: k + 3 * j, shards={'quick': 8, 'thorough': 16}, budget_s={'quick': 150, 'thorough': 900}, native_body=True,
       witnesses=[{'k': 0, 'j': 0}], min_confirmed=8, enumerated='score length, interval and direction',
       bounds={'quick': 'scores of 300 and 1200 data rows (naturals C3..b5, rests, dotted / decorated notes, comments, a text spine, one split + join) x {M2 up, m3 down, P5 up, octave down}',
               'thorough': '+ 4000 data rows, + {A4 up, d5 down}'}),
    Ob(id='C15.b', fn=ob_b, title='tracked classes: explicit accidentals, chord notes, source document after the call',
       shard_of=lambda cls, iv, up: iv, shards={'quick': 4, 'thorough': 4}, budget_s={'quick': 120, 'thorough': 600},
       witnesses=[{'cls': 0, 'iv': 5, 'up': True}], min_confirmed=60, enumerated='class, interval, direction',
       bounds={'quick': '5 classes (two chord documents) x 40 intervals x 2 directions', 'thorough': 'same'}),
    Ob(id='C15.c', fn=ob_c, title='unknown interval names / directions raise ValueError',
       budget_s={'quick': 150, 'thorough': 600}, witnesses=[{'nsel': 0, 'dsel': 0}, {'nsel': 45, 'dsel': 0}], min_confirmed=100,
       enumerated='interval name from the 40 valid + 15 invalid spellings, direction from 6 spellings', bounds={'quick': '55 x 6', 'thorough': 'same'}),
]
