"""C17  Token queries agree with the tree and with each other.

Anchors: Node.dfs_iterative, TokensTraversal, MetacommentsTraversal, Document.get_all_tokens /
get_unique_tokens / get_all_tokens_encodings / frequencies / get_metacomments (document.py),
is_monophonic (public.py).  Oracles: spine-path model (listing order), documented category tree.
"""
from sv.engine import ctx
from sv.engine.ob import Ob
from sv.engine.xh import assume, check, choose, concrete, native
from sv.ref import cats as refcats
from sv.ref import cells, docs
from sv.ref import spinepath as sp

import kernpy as kp
from kernpy.core.tokens import TokenCategory as TC

CATS = list(TC)
N = len(CATS)
NAMES = [c.name for c in CATS]
_entries, DOC_SRC = refcats.documented()
TREE = refcats.Model(_entries)

META = {
    'outside': ['layouts beyond the C02 bounds; more than two filter categories per call (closure algebra for arbitrary sets: C11.c)'],
    'assumptions': [],
}

HEADS = (('**kern',), ('**kern', '**text'), ('**kern', '**kern'), ('**dynam', '**kern', '**harm'))
LAYOUTS = []
COMMENT_PLANS = ((), ('pre',), ('pre', 'pre'), ('in',), ('post',), ('pre', 'in', 'post'), ('in', 'in2', 'post', 'post'), ('dup', 'in', 'dup2'), ('eq',), ('eq', 'pre', 'post'))


def load(tier):
    global LAYOUTS
    LAYOUTS = []
    for heads in HEADS:
        depth = ctx.pick({1: 2, 2: 2, 3: 1}, {1: 3, 2: 3, 3: 2})[len(heads)]
        for lay in sp.enumerate_layouts(len(heads), depth):
            LAYOUTS.append((heads, lay))
    LAYOUTS.extend(sp.curated_layouts())


def model_order(rows):
    """Expected listing: global comments before the header; each spine depth-first, left to right; all later global comments."""
    pre, later, cells_, header_row = [], [], {}, None
    kids = {}
    grid_rows = [r for r in rows]
    an = sp.analyse(grid_rows)
    for r, row in enumerate(an):
        for c in row:
            if c.text.startswith('!!') and len(rows[r]) == 1:
                (pre if header_row is None else later).append(c.text)
                continue
            if header_row is None:
                header_row = r
            cells_[(c.row, c.col)] = c
            if c.row != header_row:
                kids.setdefault(c.parent, []).append((c.row, c.col))
    out = list(pre)
    for hc in an[header_row]:
        stack = [(hc.row, hc.col)]
        while stack:
            k = stack.pop()
            out.append(cells_[k].text)
            stack.extend(reversed(sorted(kids.get(k, []))))
    return out + later


@native
def build(li, plan):
    heads, lay = LAYOUTS[li]
    rows = sp.build_rows(list(heads), lay)
    rows.insert(2, ['='] * len(rows[1]))
    if 'eq' in plan:
        # a line of EQUAL cells (barlines, then null tokens) directly below every operator row: sibling sub-spines hold equal tokens
        out = []
        for i, r in enumerate(rows):
            out.append(r)
            if i + 1 < len(rows) and r[0].startswith('*') and not r[0].startswith('**') and any(c in ('*^', '*v') for c in r):
                w = len(rows[i + 1])
                out.append(['='] * w)
                out.append(['.'] * w)
        rows = out
    n_in = 0
    for p in plan:
        if p == 'pre':
            rows.insert(0, ['!!!pre%d: x' % len([r for r in rows if r[0].startswith('!!!pre')])])
        elif p == 'dup':
            rows.insert(0, ['!! ----------'])          # the same comment text occurs again later (dup2)
            rows.insert(0, ['!!!COM: Bach'])
    hdr = next(i for i, r in enumerate(rows) if r[0].startswith('**'))
    for p in plan:
        if p == 'in':
            rows.insert(hdr + 2, ['!! inner'])
        elif p == 'in2':
            rows.insert(hdr + 4 if hdr + 4 < len(rows) else len(rows) - 1, ['!! inner two'])
        elif p == 'dup2':
            rows.append(['!! ----------'])
            rows.append(['!!!COM: Bach'])
        elif p == 'post':
            rows.append(['!!!post%d: y' % len([r for r in rows if r[0].startswith('!!!post')])])
    return rows


# ------------------------------------------------------------------ C17.a listing order
def ob_a(layout: int, plan: int) -> bool:
    assume(0 <= layout < len(LAYOUTS) and 0 <= plan < len(COMMENT_PLANS))
    return _a_body(choose(layout, len(LAYOUTS)), choose(plan, len(COMMENT_PLANS)))


@native
def _a_body(li, pi):
    rows = build(li, COMMENT_PLANS[pi])
    text = sp.to_text(rows)
    doc, errs = kp.loads(text)
    check(not errs, f'import errors on {text!r}')
    got = [t.encoding for t in doc.get_all_tokens()]
    exp = model_order(rows)
    check(got == exp, f'listing of {text!r}: {got}, spine-path order {exp}')
    check(doc.get_all_tokens_encodings() == exp, 'get_all_tokens_encodings differs from the listing')
    check(doc.get_metacomments() == [r[0] for r in rows if r[0].startswith('!!')], f'get_metacomments() = {doc.get_metacomments()}')
    return True


# ------------------------------------------------------------------ C17.b filters and derived queries
QDOCS = []


def _qdocs():
    if not QDOCS:
        QDOCS.extend(D.text() for D in docs.pool())
        # the same text under different categories ('f' note vs 'f' dynamic, '*MM60' contextual vs lyric, '.' everywhere)
        QDOCS.append('**kern\t**dynam\t**text\n*MM60\t*\t*MM60\n*clefG2\t*\t*\n=\t=\t=\nf\tf\tf\n4c\t.\tla\n4c\tf\tla\n=\t=\t=\n8r\tp\t4c\n*-\t*-\t*-\n')
        # invisible barlines (=1- / =-) are tokens of the listing like any other cell
        QDOCS.append('**kern\t**text\n*clefG2\t*\n=1-\t=1-\n4c\tla\n=-\t=-\n4d\t.\n=3\t=3\n4e\tli\n==\t==\n*-\t*-\n')
    return QDOCS


def _sel(k):
    if k == 0:
        return None
    if k <= N:
        return [NAMES[k - 1]]
    k -= N + 1
    for i in range(N):
        if k < N - 1 - i:
            return [NAMES[i], NAMES[i + 1 + k]]
        k -= N - 1 - i
    raise IndexError


NSEL = N + 1 + N * (N - 1) // 2


def ob_b(d: int, sel: int, style: int) -> bool:
    nd = len(_qdocs())
    assume(0 <= d < nd and 0 <= sel < NSEL and 0 <= style < 3)
    return _b_body(choose(d, nd), choose(sel, NSEL), choose(style, 3))


@native
def _b_body(d, sel, style):
    doc, errs = kp.loads(_qdocs()[d])
    names = _sel(sel)
    if names is None:
        arg = None
        closure = set(NAMES)
    else:
        closure = set()
        for n in names:
            closure.update(TREE.closure(n))
        arg = ([TC[n] for n in names], tuple(TC[n] for n in names), {TC[n] for n in names})[style]
    full = doc.get_all_tokens()
    got = doc.get_all_tokens(filter_by_categories=arg)
    exp = [t for t in full if t.category.name in closure]
    check([id(t) for t in got] == [id(t) for t in exp],
          f'filter {names}: listing {[t.encoding for t in got]}, expected the sub-sequence {[t.encoding for t in exp]}')
    check(doc.get_all_tokens_encodings(filter_by_categories=arg) == [t.encoding for t in exp], f'filter {names}: get_all_tokens_encodings')
    # unique: first occurrences (by text) of the filtered listing
    seen, first = set(), []
    for t in exp:
        if t.encoding not in seen:
            seen.add(t.encoding)
            first.append(t)
    uq = doc.get_unique_tokens(filter_by_categories=arg)
    check([id(t) for t in uq] == [id(t) for t in first],
          f'filter {names}: unique listing {[t.encoding for t in uq]}, first occurrences {[t.encoding for t in first]}')
    check(doc.get_unique_token_encodings(filter_by_categories=arg) == [t.encoding for t in first], f'filter {names}: get_unique_token_encodings')
    fr = doc.frequencies(token_categories=arg)
    check(sum(v['occurrences'] for v in fr.values()) == len(exp), f'filter {names}: frequencies sum to {sum(v["occurrences"] for v in fr.values())}, listing has {len(exp)}')
    for t in first:
        check(t.encoding in fr and fr[t.encoding]['category'] == t.category.name and fr[t.encoding]['occurrences'] == sum(1 for x in exp if x.encoding == t.encoding),
              f'filter {names}: frequencies[{t.encoding!r}] = {fr.get(t.encoding)}')
    check(len(fr) == len(first), 'frequencies has extra keys')
    return True


# ------------------------------------------------------------------ C17.c comment query with a symbolic key
COMMENT_DOC = '!!!COM: Bach\n!!!OTL: Title\n!! plain comment\n**kern\n!!!OTL@@DE: Titel\n4c\n!!!C: x\n!! plain comment\n*-\n!!!COM2: other\n!!!EED: ed\n!!!COM: Bach\n'
COMMENT_LINES = [ln for ln in COMMENT_DOC.split('\n') if ln.startswith('!!')]


def ob_c(key: str, clear: bool, use_none: bool) -> bool:
    assume(len(key) <= ctx.pick(4, 6))
    doc = _cdoc()
    if use_none:
        assume(key == '')
        got = doc.get_metacomments(KeyComment=None, clear=False)
        check(got == COMMENT_LINES, lambda: f'get_metacomments(None) = {got}')
        check(doc.get_metacomments() == COMMENT_LINES, 'get_metacomments() without arguments')
        return True
    got = doc.get_metacomments(KeyComment=key, clear=clear)
    pre = '!!!' + key
    exp = [ln for ln in COMMENT_LINES if ln.startswith(pre)]
    if clear:
        exp = [ln.replace('!!!' + key + ': ', '') for ln in exp]
    check(got == exp, lambda: f'get_metacomments({concrete(key)!r}, clear={clear}) = {concrete(got)}, expected {concrete(exp)}')
    return True


_CD = []


@native
def _cdoc():
    if not _CD:
        _CD.append(kp.loads(COMMENT_DOC)[0])
    return _CD[0]


# ------------------------------------------------------------------ C17.d monophony
def ob_d(nk: int, other: int, chord: bool, content: int, split: bool, place: int) -> bool:
    assume(0 <= nk <= 2 and 0 <= other <= 2 and 0 <= content < 4 and 0 <= place < 3)
    return _d_body(choose(nk, 3), choose(other, 3), bool(chord), choose(content, 4), bool(split), choose(place, 3))


@native
def _d_body(nk, other, chord, content, split, place):
    """nk kern spines, `other` non-kern spines; content: 0 notes, 1 rests only, 2 only null tokens (with a split: one note, in the
    right-hand sub-spine only), 3 no data rows at all.  place: where the chord sits -- 0 in the unsplit part, 1 / 2 in the left /
    right sub-spine of a split."""
    heads = ['**kern'] * nk + ['**dynam', '**text'][:other]
    if not heads:
        return True
    has_split = split and nk >= 1 and content != 3
    if place and not (has_split and chord):
        return True
    rows = [heads, ['*clefG2'] * nk + ['*'] * other, ['='] * len(heads)]
    data = []
    main_chord = chord and place == 0
    if content != 3:
        for i in range(2):
            k = []
            for c in range(nk):
                if content == 0:
                    k.append(('4c 4e' if (main_chord and i == 1 and c == 0) else ('4d', '4e', '4f')[i + c]))
                elif content == 1:
                    k.append('4r' if not (main_chord and i == 1 and c == 0) else '4c 4e')
                else:
                    k.append('.' if not (main_chord and i == 1 and c == 0) else '4c 4e')
            data.append(k + ['f', 'la'][:other])
    rows += data
    if has_split:
        w = len(heads)
        left, right = (('4g', '4a'), ('4r', '4r'), ('.', '4a'))[content]
        if chord and place == 1:
            left = '4c 4e'
        if chord and place == 2:
            right = '4c 4e'
        rows.append(['*^'] + ['*'] * (w - 1))
        rows.append([left, right] + [('4b', '4r', '.')[content]] * (nk - 1) + ['.', '.'][:other])
        rows.append(['*v', '*v'] + ['*'] * (w - 1))
    rows.append(['*-'] * len(heads))
    text = sp.to_text(rows)
    doc, errs = kp.loads(text)
    check(not errs, f'import errors on {text!r}')
    has_chord = chord and content != 3 and nk >= 1          # the chord cell lives in the first **kern spine
    has_note_rest = content in (0, 1) or (content == 2 and has_split)
    exp = (nk == 1) and (not has_chord) and has_note_rest
    got = kp.is_monophonic(doc)
    check(bool(got) == exp, f'is_monophonic = {got} for {text!r}: kern spines {nk}, chord {has_chord}, note or rest {has_note_rest}')
    # the listing agrees: chords <=> CHORD tokens listed, notes / rests <=> NOTE_REST tokens listed
    n_chords = len(doc.get_all_tokens(filter_by_categories=[TC.CHORD]))
    check((n_chords > 0) == has_chord, f'{n_chords} CHORD tokens listed for {text!r}, chord present: {has_chord}')
    return True


def _desc_a(layout, plan):
    return {'text': sp.to_text(build(layout, COMMENT_PLANS[plan]))}


# ------------------------------------------------------------------ C17.e long scores
LONG = ((300, 0), (1200, 600), (4000, 37))


def ob_e(k: int) -> bool:
    n = ctx.pick(2, 3)
    assume(0 <= k < n)
    return _e_body(choose(k, n))


@native
def _e_body(k):
    from sv.ref import longdoc
    D = longdoc.long_doc(LONG[k][0], True, LONG[k][1])
    src = [['!!!COM: Anon']] + [[c.source() for c in r] for r in D.rows] + [['!!!EED: x']]
    # a barline token carries its text without the measure number (C03)
    rows = [['!!!COM: Anon']] + [[(c.exported() if c.kind == 'bar' else c.source()) for c in r] for r in D.rows] + [['!!!EED: x']]
    doc, errs = kp.loads(sp.to_text(src))
    check(not errs, 'import errors on the long score')
    exp = model_order(rows)
    got = [t.encoding for t in doc.get_all_tokens()]
    if got != exp:
        bad = next((i for i, (g, x) in enumerate(zip(got, exp)) if g != x), min(len(got), len(exp)))
        check(False, f'score of {LONG[k][0]} data rows: listing has {len(got)} tokens, spine-path order {len(exp)}; first difference at {bad}: '
                     f'{got[bad:bad + 3]} vs {exp[bad:bad + 3]}')
    check(doc.get_all_tokens_encodings() == exp, 'get_all_tokens_encodings differs from the listing')
    fr = doc.frequencies()
    check(sum(v['occurrences'] for v in fr.values()) == len(exp), f'frequencies sum to {sum(v["occurrences"] for v in fr.values())}, the listing has {len(exp)} tokens')
    seen, first = set(), []
    for x in exp:
        if x not in seen:
            seen.add(x)
            first.append(x)
    check([t.encoding for t in doc.get_unique_tokens()] == first, 'unique listing is not the first occurrences')
    notes = [t.encoding for t in doc.get_all_tokens(filter_by_categories=[TC.NOTE_REST])]
    check(notes == [x for x, t in zip(exp, doc.get_all_tokens()) if t.category.name in TREE.closure('NOTE_REST')], 'NOTE_REST filter is not the sub-sequence')
    check(doc.get_metacomments() == [r[0] for r in rows if r[0].startswith('!!')], 'get_metacomments on the long score')
    check(kp.is_monophonic(doc) is True, 'is_monophonic: one **kern spine (a split does not add a spine), no chord, notes and rests')
    return True


OBLIGATIONS = [
    Ob(id='C17.e', fn=ob_e, title='listing order, encodings, unique, frequencies, comments on long scores (hundreds to thousands of lines)',
       shard_of=lambda k: k, shards={'quick': 2, 'thorough': 3}, budget_s={'quick': 150, 'thorough': 600}, native_body=True,
       witnesses=[{'k': 0}], min_confirmed=2, enumerated='score length',
       bounds={'quick': 'kern + text scores of 300 and 1200 data rows, reference records before and after, global comments inside, one split + join', 'thorough': '+ 4000 data rows'}),
    Ob(id='C17.a', fn=ob_a, title='listing order: leading comments, each spine depth-first left to right, later comments; each cell once',
       shard_of=lambda layout, plan: layout, shards={'quick': 16, 'thorough': 16}, budget_s={'quick': 170, 'thorough': 1800},
       witnesses=[{'layout': 0, 'plan': 5}], min_confirmed=500, enumerated='layout selector, global-comment plan',
       bounds={'quick': '4 header sets (1-3 spines), operator rows 2/2/1 + 12 curated deep layouts x 10 plans (comments before the header, inside, after the terminators, repeated texts; lines of equal cells below every split / join)',
               'thorough': 'operator rows 3/3/2'}, describe=_desc_a),
    Ob(id='C17.b', fn=ob_b, title='category filter == sub-sequence in the closure; unique = first occurrences; frequencies; encodings',
       shard_of=lambda d, sel, style: sel, shards={'quick': 16, 'thorough': 16}, budget_s={'quick': 170, 'thorough': 1800},
       witnesses=[{'d': 0, 'sel': 5, 'style': 0}, {'d': 6, 'sel': 0, 'style': 1}], min_confirmed=3000,
       enumerated='document, filter selection (None, every single category, every pair), argument shape',
       bounds={'quick': '8 documents (pool + one with the same text under different categories + one with invisible barlines) x 704 selections x {list, tuple, set}', 'thorough': 'same'}),
    Ob(id='C17.c', fn=ob_c, title='comment query with an arbitrary key string',
       budget_s={'quick': 150, 'thorough': 900}, witnesses=[{'key': 'OTL', 'clear': True, 'use_none': False}, {'key': '', 'clear': False, 'use_none': True}],
       min_confirmed=6, symbolic='key string', enumerated='clear flag, None',
       bounds={'quick': 'key <= 4 chars on a document with 7 comment lines before / inside / after the spines', 'thorough': 'key <= 6 chars'}),
    Ob(id='C17.d', fn=ob_d, title='is_monophonic <=> one **kern spine and no chord and at least one note or rest',
       budget_s={'quick': 120, 'thorough': 600}, witnesses=[{'nk': 1, 'other': 1, 'chord': False, 'content': 0, 'split': False, 'place': 0}, {'nk': 1, 'other': 0, 'chord': True, 'content': 0, 'split': True, 'place': 2},
                  {'nk': 1, 'other': 0, 'chord': False, 'content': 2, 'split': True, 'place': 0}], min_confirmed=100,
       enumerated='kern spines 0..2, other spines 0..2, chord, content kind (notes, rests only, nulls only, no data), split, where the chord sits (unsplit part, left / right sub-spine)',
       bounds={'quick': '3 x 3 x 2 x 4 x 2 x 3 documents', 'thorough': 'same'}),
]
