"""C10  Agnostic encoding depends only on staff position and accidental.

Anchors: PitchPositionReferenceSystem.compute_position, Clef.bottom_line, ClefFactory.create_clef,
gkern_to_g_clef_pitch / pitch_to_gkern_string (gkern.py); Exporter.export_token (clef in force per node);
AEKernTokenizer.tokenize and NoteRestToken.export(convert_pitch_to_agnostic=...).
"""
import random

import z3

from sv.engine import ctx, pz
from sv.engine.ob import Ob
from sv.engine.xh import assume, check, choose, native
from sv.ref import cells
from sv.ref import pitch as rp
from sv.ref import spinepath as sp

import kernpy as kp
from kernpy.core import gkern as gk
from kernpy.core import pitch_models as pm

META = {
    'outside': ['octaves outside 0..8 in the grid (the position lemma covers every integer octave)',
                'which pitch a clef\'s bottom line IS: the property anchors positions at the clef\'s own bottom_line(); only G2 = E4 is implied (identity)'],
    'assumptions': [],
}

CLEF_BASES = ('G2', 'F3', 'F4', 'C1', 'C2', 'C3', 'C4')
MARKS = ('', 'v', 'vv', '^', '^^')
ACCS = ('', '#', '##', '-', '--')
ALT = {'': 0, '#': 1, '##': 2, '-': -1, '--': -2}


def clef_text(base, mark):
    return '*clef' + base[0] + mark + base[1]


def model_agnostic(letter, alt, octave, bottom_letter, bottom_octave):
    """The Humdrum pitch occupying, under a G2 clef, the position of (letter, octave) under a clef whose bottom line is
    (bottom_letter, bottom_octave); accidental carried over unchanged."""
    d = rp.steps(letter, octave) - rp.steps(bottom_letter, bottom_octave)
    t = rp.steps(2, 4) + d                      # bottom line of G2 is E4
    return rp.humdrum(t % 7, alt, t // 7)


# ------------------------------------------------------------------ C10.a pitch-level grid
def ob_a(c: int, m: int, letter: int, a: int, o: int) -> bool:
    octs = tuple(range(9))
    assume(0 <= c < 7 and 0 <= m < 5 and 0 <= letter < 7 and 0 <= a < 5 and 0 <= o < len(octs))
    return _a_body(choose(c, 7), choose(m, 5), choose(letter, 7), choose(a, 5), octs[choose(o, len(octs))])


@native
def _a_body(c, m, letter, a, octave):
    text = clef_text(CLEF_BASES[c], MARKS[m])
    clef = gk.ClefFactory.create_clef(text)
    plain = gk.ClefFactory.create_clef(clef_text(CLEF_BASES[c], ''))
    check(type(clef) is type(plain), f'{text}: octave marks change the clef class ({type(clef).__name__} vs {type(plain).__name__})')
    bl = clef.bottom_line()
    bL, bA = rp.name_parts(bl.name)
    alt = ALT[ACCS[a]]
    p = pm.AgnosticPitch(rp.agnostic_name(letter, alt), octave)
    got = kp.pitch_to_gkern_string(p, clef)
    exp = model_agnostic(letter, alt, octave, bL, bl.octave)
    check(got == exp, f'{rp.humdrum(letter, alt, octave)!r} under {text} -> {got!r}, same position under G2 is {exp!r}')
    check((p.name, p.octave) == (rp.agnostic_name(letter, alt), octave), 'the pitch object was modified')
    if CLEF_BASES[c] == 'G2':
        check(got == rp.humdrum(letter, alt, octave), f'G2 is not the identity: {rp.humdrum(letter, alt, octave)!r} -> {got!r}')
    # the bottom-line pitch maps to 'e'; one step up moves the agnostic pitch one step up
    check(kp.pitch_to_gkern_string(pm.AgnosticPitch(bl.name, bl.octave), clef) == 'e', f'bottom line of {text} does not map to e')
    up = (letter + 1) % 7, octave + (1 if letter == 6 else 0)
    got_up = kp.pitch_to_gkern_string(pm.AgnosticPitch(rp.agnostic_name(up[0], alt), up[1]), clef)
    check(got_up == model_agnostic(up[0], alt, up[1], bL, bl.octave), f'one step above {rp.humdrum(letter, alt, octave)!r} under {text}: {got_up!r}')
    # histories on ONE pitch object: converted, asked again, moved through its public setters (octave, then name), converted again --
    # every answer is the one a freshly built pitch gives (nothing may be remembered on the object from an earlier conversion)
    check(kp.pitch_to_gkern_string(p, clef) == exp, f'second conversion of the same pitch object under {text} differs from the first ({exp!r})')
    o2 = octave + 1 if octave < 8 else octave - 1
    p.octave = o2
    got2 = kp.pitch_to_gkern_string(p, clef)
    exp2 = model_agnostic(letter, alt, o2, bL, bl.octave)
    check(got2 == exp2, f'{rp.humdrum(letter, alt, octave)!r} converted under {text}, its octave then set to {o2}: {got2!r}, a fresh pitch gives {exp2!r}')
    l3 = (letter + 2) % 7
    p.name = rp.agnostic_name(l3, alt)
    got3 = kp.pitch_to_gkern_string(p, clef)
    exp3 = model_agnostic(l3, alt, o2, bL, bl.octave)
    check(got3 == exp3, f'pitch object renamed to {rp.agnostic_name(l3, alt)} after two conversions under {text}: {got3!r}, a fresh pitch gives {exp3!r}')
    # the clef object is not changed by conversions either: the bottom line still maps to e
    check(kp.pitch_to_gkern_string(pm.AgnosticPitch(bl.name, bl.octave), clef) == 'e', f'bottom line of {text} no longer maps to e after conversions')
    return True


# ------------------------------------------------------------------ C10.b position lemma for every integer octave (E2)
def fn_b(letter: str, octave: int, base_letter: str, base_octave: int) -> bool:
    """Native replay form."""
    ref = gk.PitchPositionReferenceSystem(pm.AgnosticPitch(base_letter, base_octave))
    pos = ref.compute_position(pm.AgnosticPitch(letter, octave))
    exp = 7 * (octave - base_octave) + rp.LET.index(letter) - rp.LET.index(base_letter)
    check(pos.line_space == exp, f'compute_position({letter}{octave}; base {base_letter}{base_octave}) = {pos.line_space}, expected {exp}')
    d = pos.line_space
    enc = str(pos)
    g = gk.gkern_to_g_clef_pitch(enc)
    t = rp.steps(0, 4) + d + 2
    check(g == rp.humdrum(t % 7, 0, t // 7), f'position {d} ({enc}) -> {g!r}, expected {rp.humdrum(t % 7, 0, t // 7)!r}')
    return True


def run_b(tier):
    q = pz.Queries(tier)
    cex = []
    LETS = list(rp.LET)
    o, ob, d, n = z3.Ints('octave base_octave d n')
    L, Lb, ptype = z3.Strings('letter base_letter position_type')
    dom = [z3.Or([L == x for x in LETS]), z3.Or([Lb == x for x in LETS])]
    idx = pz.table({x: i for i, x in enumerate(LETS)}, default=z3.IntVal(-50))
    try:
        pos = pz.translate(gk.PitchPositionReferenceSystem.compute_position, {
            'self': pz.Record(base_pitch=pz.Record(octave=ob, _letter=Lb)),
            'pitch': pz.Record(octave=o, _letter=L),
            'letter': lambda p: p['_letter'],              # stub: the nested helper strips accidentals; validated on all names below
            'PositionInStaff': lambda x: x})
        r, m = q.valid('compute_position == 7*(octave - base octave) + letter index difference, all letters, all integer octaves', dom,
                       pos == 7 * (o - ob) + idx(L) - idx(Lb), model_vars=[L, o, Lb, ob])
        if r == 'sat':
            cex.append({'args': {'letter': m.eval(L).as_string(), 'octave': m.eval(o, model_completion=True).as_long(),
                                 'base_letter': m.eval(Lb).as_string(), 'base_octave': m.eval(ob, model_completion=True).as_long()},
                        'message': 'compute_position differs from the diatonic-step model'})
        me = pz.Record(line_space=d)
        line = pz.translate(gk.PositionInStaff.line, {'self': me})
        space = pz.translate(gk.PositionInStaff.space, {'self': me})
        is_line = pz.translate(gk.PositionInStaff.is_line, {'self': me})
        r, m = q.valid('is_line(d) <=> d even', [], is_line == (d % 2 == 0), model_vars=[d])
        env = {'n': n, 'position_type': ptype}
        dist = pz.assigned_expr(gk.gkern_to_g_clef_pitch, 'distance', env)
        i_e = pz.assigned_expr(gk.gkern_to_g_clef_pitch, 'idx', {**env, 'distance': dist})
        o_e = pz.assigned_expr(gk.gkern_to_g_clef_pitch, 'octs', {**env, 'distance': dist})
        enc = [z3.If(is_line, z3.And(n == line, ptype == 'T'), z3.And(n == space, ptype == 'S'))]      # what __str__ writes
        for name, goal in (('distance == d + 2', dist == d + 2), ('idx == (d + 2) mod 7', i_e == (d + 2) % 7), ('octs == floor((d + 2) / 7)', o_e == (d + 2) / 7)):
            r, m = q.valid(f'gkern_to_g_clef_pitch: {name} for every staff position d', enc, goal, model_vars=[d])
            if r == 'sat':
                dv = m.eval(d, model_completion=True).as_long()
                cex.append({'args': {'letter': LETS[(2 + dv) % 7], 'octave': 4 + (2 + dv) // 7, 'base_letter': 'E', 'base_octave': 4},
                            'message': f'{name} fails at d = {dv}'})
    except pz.Unsupported as e:
        q.unsupported(str(e))
    # stub validation: letter() strips the accidentals for every table name
    bad = 0
    for nm in pm.Chromas:
        ref = gk.PitchPositionReferenceSystem(pm.AgnosticPitch('E', 4))
        if ref.compute_position(pm.AgnosticPitch(nm, 4)).line_space != rp.LET.index(nm[0]) - 2:
            bad += 1
    rnd = random.Random(ctx.SEED + 10)
    pts = 0
    for _ in range(200):
        l1, l2, o1, o2 = rnd.choice(LETS), rnd.choice(LETS), rnd.randint(-20, 20), rnd.randint(-20, 20)
        pts += 1
        try:
            fn_b(l1, o1, l2, o2)
        except Exception:
            bad += 0          # disagreements of the real code with the model are the solver's job (reported above), not a translator fault
    res = q.result(functions=[pz.qualname(gk.PitchPositionReferenceSystem.compute_position), pz.qualname(gk.PositionInStaff.line),
                              pz.qualname(gk.PositionInStaff.space), pz.qualname(gk.PositionInStaff.is_line),
                              'core.gkern:gkern_to_g_clef_pitch (assignments distance, idx, octs)'],
                   tables=['LETTER_TO_INDEX (dict literal inside compute_position)'], validated_points=len(pm.Chromas) - bad,
                   notes='the nested letter() helper is stubbed by the letter of the symbolic record (validated on the 39 table names); '
                         'string formatting/parsing between PositionInStaff.__str__ and gkern_to_g_clef_pitch is covered by the C10.a grid only')
    if bad:
        res['harness_error'] = f'stub validation failed on {bad} names'
    res['cex'] = cex
    return res


# ------------------------------------------------------------------ C10.c documents
from sv.ref.cells import Bar, Chord, Doc, Header as H, Note, Null, Op, Rest   # noqa: E402
from sv.ref.docs import sig                                                   # noqa: E402

T = '*-'


def _docs():
    D = []
    # clef change mid-score, chords, accidentals, two spines
    D.append(Doc([[H('**kern'), H('**kern')], [sig('*clefF4', 'CLEF'), sig('*clefG2', 'CLEF')], [Bar(number='1'), Bar(number='1')],
                  [Note('4', pitch='GG', acc='#'), Note('4', pitch='cc', acc='-', decs=((3, 'L'),))],
                  [Chord((Note('4', pitch='C'), Note('4', pitch='E', acc='-'), Note('4', pitch='G'))), Note('8', dots=1, pitch='b', decs=((3, 'J'),))],
                  [sig('*clefC3', 'CLEF'), Null('*')], [Note('4', pitch='c', acc='##'), Rest('4')],
                  [Null('*'), sig('*clefGv2', 'CLEF')], [Note('2', pitch='d'), Note('2', pitch='dd', acc='--')],
                  [Bar(double=True), Bar(double=True)], [Op(T), Op(T)]]))
    # split with staggered clef changes in the sub-spines, join, spine to the right
    D.append(Doc([[H('**kern'), H('**kern')], [sig('*clefG2', 'CLEF'), sig('*clefF4', 'CLEF')], [Note('4', pitch='e'), Note('4', pitch='GG')],
                  [Op('*^'), Null('*')], [Note('4', pitch='g'), Note('4', pitch='c'), Note('4', pitch='AA')],
                  [Null('*'), sig('*clefF4', 'CLEF'), Null('*')], [Note('4', pitch='a'), Note('4', pitch='E'), Note('4', pitch='BB')],
                  [sig('*clefC1', 'CLEF'), Null('*'), sig('*clefC4', 'CLEF')], [Note('4', pitch='b'), Note('4', pitch='F', acc='#'), Note('4', pitch='c')],
                  # the same signature written in both sub-spines (and in the other spine) on one line: each keeps its own clef
                  [sig('*M3/4', 'TIME_SIGNATURE'), sig('*M3/4', 'TIME_SIGNATURE'), sig('*M3/4', 'TIME_SIGNATURE')],
                  [Note('4', pitch='e'), Chord((Note('4', pitch='f', acc='#'), Note('4', pitch='a'))), Note('4', pitch='GG')],
                  [sig('*k[f#]', 'KEY_SIGNATURE'), sig('*k[f#]', 'KEY_SIGNATURE'), Null('*')], [Note('8', pitch='dd'), Note('8', pitch='D'), Note('8', pitch='AA')],
                  [Op('*v'), Op('*v'), Null('*')], [Note('2', pitch='cc'), Note('2', pitch='d')], [Op(T), Op(T)]]))
    # one spine, every clef in turn
    rows = [[H('**kern')]]
    for i, base in enumerate(CLEF_BASES):
        rows.append([sig(clef_text(base, MARKS[i % 5]), 'CLEF')])
        rows.append([Note('4', pitch=('c', 'BB', 'gg', 'E', 'f', 'AAA', 'ddd')[i], acc=ACCS[i % 5])])
        rows.append([Chord((Note('8', pitch='C'), Note('8', pitch='e', acc='-')))])
    rows.append([Op(T)])
    D.append(Doc(rows))
    # naturals and display suffixes
    D.append(Doc([[H('**kern')], [sig('*clefG2', 'CLEF')], [Note('4', pitch='c', acc='n')], [Note('4', pitch='d', acc='#', disp='X')],
                  [Note('4', pitch='e')], [Op(T)]]))
    return D


DOCS = []


def load(tier):
    global DOCS, OCTS_D
    DOCS = _docs()
    if tier == 'thorough':
        OCTS_D = tuple(range(9))


def _parse_pa(pa):
    letters = ''.join(ch for ch in pa if ch.isalpha() and ch.lower() in 'abcdefg')
    acc = pa[len(letters):]
    L = 'cdefgab'.index(letters[0].lower())
    octave = 3 + len(letters) if letters[0].islower() else 4 - len(letters)
    return L, acc, octave


def ob_c(d: int, e: int) -> bool:
    assume(0 <= d < len(DOCS) and 0 <= e < 2)
    return _c_body(choose(d, len(DOCS)), choose(e, 2))


@native
def _c_body(di, e):
    D = DOCS[di]
    rows_text = [[c.source() for c in r] for r in D.rows]
    an = sp.analyse(rows_text)
    cellmap = {(c.row, c.col): c for r in an for c in r}

    def clef_for(r, j):
        k = (r, j)
        while k is not None:
            c = cellmap[k]
            if c.text.startswith('*clef'):
                return c.text
            k = c.parent
        return None

    def conv(r, j):
        cl = clef_for(r, j)
        if cl is None:
            return None
        bl = gk.ClefFactory.create_clef(cl).bottom_line()
        bL, _ = rp.name_parts(bl.name)

        def f(pa):
            L, acc, octave = _parse_pa(pa)
            body = model_agnostic(L, 0, octave, bL, bl.octave)
            return body + acc
        return f
    has_nat = any(isinstance(n, Note) and (n.acc == 'n' or n.disp) for r in D.rows for c in r
                  for n in (c.notes if isinstance(c, Chord) else [c]) if isinstance(n, Note))
    doc, errs = kp.loads(D.text())
    check(not errs, 'import errors')
    enc = ('akern', 'aekern')[e]
    got = cells.parse_grid(kp.dumps(doc, encoding=(kp.Encoding.agnosticKern, kp.Encoding.agnosticExtendedKern)[e]))
    exp = D.expected(enc, to_agnostic=conv)
    check(got == exp, f'{enc} export {got}, expected (each note under the clef in force on its spine path) {exp}')
    # differs from the kern export only in the pitch letters of notes; exporting in an agnostic encoding leaves the document as it was
    plain = cells.parse_grid(kp.dumps(doc, encoding=(kp.Encoding.normalizedKern, kp.Encoding.eKern)[e]))
    check(plain == D.expected(('kern', 'ekern')[e]), f'the {("kern", "ekern")[e]} export AFTER an {enc} export is {plain}, expected {D.expected(("kern", "ekern")[e])}')
    again = cells.parse_grid(kp.dumps(doc, encoding=(kp.Encoding.agnosticKern, kp.Encoding.agnosticExtendedKern)[e]))
    check(again == got, f'a second {enc} export differs from the first: {again} vs {got}')
    check(len(plain) == len(got) and all(len(a) == len(b) for a, b in zip(plain, got)), 'grid differs from the kern export')
    flat = [c for r in D.rows for c in r]
    for (a, b, c) in zip([x for r in plain[1:] for x in r], [x for r in got[1:] for x in r], [c for r in D.rows[1:] for c in r]):
        if not isinstance(c, (Note, Chord)) or (isinstance(c, Note) and c.is_rest):
            check(a == b, f'non-note cell {c.source()!r}: kern {a!r} vs agnostic {b!r}')
    return True



# ------------------------------------------------------------------ C10.d naturals / display suffixes through the real pipeline
ACCS_D = ('', 'n', '#', '##', '-', '--')
DISPS = ('', 'x', 'X', 'i', 'I', 'j', 'Z', 'y', 'yy', 'Y', 'YY')
DECS_D = ('L', ']', '_', '[', ';', 'J')


OCTS_D = (0, 3, 4, 5, 8)


def ob_d(c: int, letter: int, o: int, a: int) -> bool:
    assume(0 <= c < 7 and 0 <= letter < 7 and 0 <= o < len(OCTS_D) and 0 <= a < len(ACCS_D))
    return _d_body(choose(c, 7), choose(letter, 7), OCTS_D[choose(o, len(OCTS_D))], choose(a, len(ACCS_D)))


@native
def _d_body(c, letter, octave, a):
    """Notes (alone and inside a chord) imported by the real parser and exported in akern / aekern, one line per display suffix the
    grammar reads after this accidental: the letters are the G2 pitch of the same staff position, the accidental -- natural
    included -- and its display suffix are carried over unchanged."""
    mark = MARKS[(letter + octave) % 5]
    clef_t = clef_text(CLEF_BASES[c], mark)
    bl = gk.ClefFactory.create_clef(clef_t).bottom_line()
    bL, _ = rp.name_parts(bl.name)
    acc = ACCS_D[a]
    src = rp.humdrum(letter, 0, octave)
    exp = model_agnostic(letter, 0, octave, bL, bl.octave)
    other_src, other_exp = rp.humdrum((letter + 2) % 7, 0, 4), model_agnostic((letter + 2) % 7, 0, 4, bL, bl.octave)
    disps = DISPS if acc else ('',)            # the grammar reads a display suffix only after an accidental
    kern, ak_want, aek_want = [], [], []
    for i, disp in enumerate(disps):
        dec = DECS_D[(i + letter) % len(DECS_D)]      # beams, ties (start, continuation, end), fermata: none of them touches the pitch
        kern.append(f'4{src}{acc}{disp}{dec}')
        ak_want.append(f'4{exp}{acc}{disp}{dec}')
        aek_want.append(f'4@{exp}{acc}{disp}\u00b7{dec}')
        if i in (0, 1 + (letter + octave) % 10):           # the same note inside a chord: without suffix and with one of them; tie marks on both notes
            tie = ('', ']', '_', '[')[(i + octave) % 4]
            kern.append(f'8{other_src}{tie} 8{src}{acc}{disp}{tie}')
            ak_want.append(f'8{other_exp}{tie} 8{exp}{acc}{disp}{tie}')
            aek_want.append(f'8@{other_exp}\u00b7{tie} 8@{exp}{acc}{disp}\u00b7{tie}' if tie else f'8@{other_exp} 8@{exp}{acc}{disp}')
    text = '\n'.join(['**kern', clef_t] + kern + ['*-']) + '\n'
    doc, errs = kp.loads(text)
    check(not errs, lambda: f'{text!r}: import errors {errs}')
    ak = kp.dumps(doc, encoding=kp.Encoding.agnosticKern).split('\n')
    want = ['**akern', clef_t] + ak_want + ['*-', '']
    check(ak == want, lambda: f'akern of {text!r}: ' + '; '.join(f'line {i + 1} is {g!r}, expected {w!r}' for i, (g, w) in enumerate(zip(ak, want)) if g != w)
          + (f' ({len(ak)} lines, expected {len(want)})' if len(ak) != len(want) else ''))
    aek = kp.dumps(doc, encoding=kp.Encoding.agnosticExtendedKern).split('\n')
    want = ['**aekern', clef_t] + aek_want + ['*-', '']
    check(aek == want, lambda: f'aekern of {text!r}: ' + '; '.join(f'line {i + 1} is {g!r}, expected {w!r}' for i, (g, w) in enumerate(zip(aek, want)) if g != w)
          + (f' ({len(aek)} lines, expected {len(want)})' if len(aek) != len(want) else ''))
    k = kp.dumps(doc)
    check(k == text, lambda: f'kern export after the agnostic exports is {k!r}, expected {text!r}')
    return True


OBLIGATIONS = [
    Ob(id='C10.a', fn=ob_a, title='pitch_to_gkern_string on the clef x octave-mark x letter x accidental x octave grid',
       shard_of=lambda c, m, letter, a, o: c + 7 * letter, shards={'quick': 16, 'thorough': 16}, budget_s={'quick': 170, 'thorough': 1200},
       witnesses=[{'c': 0, 'm': 0, 'letter': 0, 'a': 0, 'o': 3}], min_confirmed=3000, enumerated='clef, octave mark, letter, accidental, octave',
       bounds={'quick': '7 clefs x 5 octave marks x 7 letters x 5 accidentals x octaves 0..8 = 11 025', 'thorough': 'same'}),
    Ob(id='C10.b', engine='E2', fn=fn_b, run=run_b, title='position lemma for every integer octave (AST -> z3)',
       symbolic='letter, octave in Z, base letter, base octave in Z; staff position d in Z',
       bounds={'quick': 'unbounded integers; 5 queries', 'thorough': 'same, re-decided by z3 4.8.12 and cvc5 1.0.3'}, budget_s={'quick': 300, 'thorough': 900}),
    Ob(id='C10.c', fn=ob_c, title='documents: akern / aekern == kern / ekern with each note converted under the clef in force on its spine path',
       budget_s={'quick': 120, 'thorough': 600}, witnesses=[{'d': 0, 'e': 0}], min_confirmed=6, enumerated='document, plain / extended',
       bounds={'quick': '4 documents (clef changes mid-score, chords, split with staggered clef changes and join, every clef in turn, naturals)', 'thorough': 'same'}),
    Ob(id='C10.d', fn=ob_d, title='naturals and accidental-display suffixes through loads -> dumps(akern / aekern): letters moved, accidental and suffix unchanged',
       shard_of=lambda c, letter, o, a: c + 7 * letter, shards={'quick': 16, 'thorough': 16}, budget_s={'quick': 170, 'thorough': 1200},
       witnesses=[{'c': 2, 'letter': 0, 'o': 2, 'a': 1}, {'c': 0, 'letter': 1, 'o': 2, 'a': 2}], min_confirmed=1200,
       enumerated='clef, letter, octave, accidental (none, natural, 1-2 sharps / flats); every display suffix inside each document',
       bounds={'quick': '7 clefs (octave mark rotating) x 7 letters x octaves {0, 3, 4, 5, 8} x 6 accidentals = 1 470 documents; each holds the note once per display suffix (11 after an accidental) and twice inside a chord',
               'thorough': 'octaves 0..8: 2 646 documents'}),
]
