"""C01  Normalised export is a fixed point of import-then-export; the normal form is canonical.

Anchors: NoteRestToken.export (canonical sub-token order), BaseANTLRSpineParserListener._add_decoration
(de-duplication), Exporter.export_string / append_row, KernTokenizer.tokenize, get_kern_from_ekern.
"""
from sv.engine import ctx
from sv.engine.ob import Ob
from sv.engine.xh import assume, check, choose, concrete, native
from sv.ref import alphabets as al, cells, docs, slots
from sv.ref import spinepath as sp

import kernpy as kp
from kernpy.core import tokens as tk
from kernpy.core.kern_spine_importer import KernSpineListener

META = {
    'outside': ['tokens longer than the slot bounds; signifiers outside the candidate list; **mens',
                'the extended-encoding round trip of NON-kern spines (get_kern_from_ekern renames only the **ekern header; the library\'s own converter exports **kern spines only)',
                'canonicity is claimed only for signifiers that do not combine with their neighbours or with themselves (derived by probing the current parser), '
                'display-suffix characters only on notes without accidental, duration marks q p P . excluded (property text)'],
    'assumptions': ['alphabets are those the current parser accepts; core members (read off the grammar) are used unconditionally'],
}

G = None
POOL = []
DISPLAY_CHARS = ('x', 'X', 'i', 'I', 'j', 'Z', 'y', 'Y')
DUR_MARKS = ('q', 'qq', 'p', 'P', '.')
POSPAIRS_Q = ((0, 3), (2, 1))
POSPAIRS_T = tuple((a, b) for a in range(4) for b in range(4))


def setup(tier):
    A = al.classify()
    return {'alphabets': A, 'alphabet_sizes': al.sizes(A), 'core_missing': al.core_missing(A)}


def load(tier):
    global G, POOL
    G = slots.Grids(ctx.DATA['alphabets'], tier)
    POOL = docs.pool()


@native
def _roundtrip(src, what):
    """Fixed point through the default and through the extended encoding, for a one-spine document holding `src`."""
    text = '**kern\n*clefG2\n' + src + '\n*-\n'
    doc, errs = kp.loads(text)
    check(not errs, f'{what} {src!r}: import reported {[str(e) for e in errs]}')
    t1 = kp.dumps(doc)
    doc1, errs1 = kp.loads(t1)
    check(not errs1, f'{what} {src!r}: its default export {t1!r} does not re-import cleanly: {[str(e) for e in errs1]}')
    t2 = kp.dumps(doc1)
    check(t2 == t1, f'{what} {src!r}: export {t1!r} re-exports as {t2!r} (not a fixed point)')
    e1 = kp.dumps(doc, encoding=kp.Encoding.eKern)
    k = kp.get_kern_from_ekern(e1)
    dock, errsk = kp.loads(k)
    check(not errsk, f'{what} {src!r}: extended export {e1!r} with separators removed ({k!r}) does not re-import cleanly')
    e2 = kp.dumps(dock, encoding=kp.Encoding.eKern)
    check(e2 == e1, f'{what} {src!r}: extended export {e1!r} -> kern -> extended gives {e2!r}')
    return t1


def _skip_dec(cell):
    s = cell.decs[0][1]
    return s in DUR_MARKS or (s[0] in DISPLAY_CHARS and bool(cell.acc))


# ------------------------------------------------------------------ C01.a token fixed point over the slot grids
def ob_a(grid: int, k: int) -> bool:
    assume(0 <= grid < 7)
    g = choose(grid, 7)
    dims = _dims(g)
    n = slots.size(dims)
    assume(0 <= k < n)
    return _a_body(g, choose(k, n))


@native
def _dims(g):
    return (G.g_plain(), G.g_marks(), G.g_dec(), G.g_disp(), G.g_rest(), G.g_chord(), G.g_bar())[g]


@native
def _cell(g, k):
    return (G.plain, G.marks, G.one_dec, G.disp_note, G.rest, G.chord, G.bar)[g](slots.unrank(_dims(g), k))


@native
def _a_body(g, k):
    cell = _cell(g, k)
    if g == 2 and _skip_dec(cell):
        return True
    notes = cell.notes if isinstance(cell, cells.Chord) else ([cell] if isinstance(cell, cells.Note) else [])
    ctx.known('KF-C01-separator-chars', any('@' in s or '·' in s for n in notes for _, s in n.decs))
    if isinstance(cell, cells.Chord):
        rest_ok = set(G.restdec)
        union = cell.shared_decs()
        ctx.known('KF-C01-chord-shared-decorations',
                  any(n.is_rest for n in cell.notes) and any(d not in rest_ok for d in union))
    _roundtrip(cell.source(), ('plain note', 'duration mark', 'signifier', 'display suffix', 'rest', 'chord', 'barline')[g])
    return True


# ------------------------------------------------------------------ C01.b canonicity
def ob_b(s: int, t: int, pp: int, rep: int, base: int) -> bool:
    n = len(G.canon)
    pairs = ctx.pick(POSPAIRS_Q, POSPAIRS_T)
    nb = ctx.pick(1, len(slots.BASES))
    assume(0 <= s < n and 0 <= t < n and 0 <= pp < len(pairs) and 0 <= rep < 3 and 0 <= base < nb)
    return _b_body(choose(s, n), choose(t, n), choose(pp, len(pairs)), choose(rep, 3), choose(base, nb))


@native
def _b_body(s, t, pp, rep, base):
    pairs = ctx.pick(POSPAIRS_Q, POSPAIRS_T)
    p1, p2 = pairs[pp]
    written, canon = G.canon_note((s, t, p1, p2, rep, base))
    a, c = G.canon[s], G.canon[t]
    if written.acc and (a[0] in DISPLAY_CHARS or c[0] in DISPLAY_CHARS):
        return True           # display-suffix characters only on notes without accidental
    ctx.known('KF-C01-separator-chars', '@' in a + c or '·' in a + c)
    outs = []
    for cell in (written, canon):
        doc, errs = kp.loads('**kern\n' + cell.source() + '\n*-\n')
        check(not errs, f'{cell.source()!r}: import errors {[str(e) for e in errs]}')
        outs.append((kp.dumps(doc).split('\n')[1], kp.dumps(doc, encoding=kp.Encoding.eKern).split('\n')[1]))
    check(outs[0] == outs[1], f'{written.source()!r} exports as {outs[0]}, the arrangement {canon.source()!r} as {outs[1]}: '
                              f'the normal form depends on order / position / repetition of signifiers')
    # the normal form is itself a fixed point (re-import it once)
    doc2, errs2 = kp.loads('**kern\n' + outs[0][0] + '\n*-\n')
    check(not errs2, f'{written.source()!r}: its export {outs[0][0]!r} does not re-import cleanly')
    again = (kp.dumps(doc2).split('\n')[1], kp.dumps(doc2, encoding=kp.Encoding.eKern).split('\n')[1])
    check(again == outs[0], f'{written.source()!r}: export {outs[0]} re-exports as {again}')
    exp = cells.export_cell(canon, 'ekern')
    check(outs[1][1] == exp, f'{canon.source()!r}: extended export {outs[1][1]!r}, canonical form {exp!r}')
    return True


# ------------------------------------------------------------------ C01.c ordering / de-duplication lemma (listener tier, symbolic texts)
class _Txt:
    def __init__(self, t):
        self.t = t

    def getText(self):
        return self.t


class _DurCtx:
    def __init__(self, num, ndots, grace, appo):
        self._num, self._nd, self._g, self._a = num, ndots, grace, appo

    def modernDuration(self):
        return _Txt(self._num)

    def augmentationDot(self):
        return [None] * self._nd

    def graceNote(self):
        return _Txt(self._g) if self._g else None

    def appoggiatura(self):
        return _Txt(self._a) if self._a else None


class _NoteCtx:
    def __init__(self, alt, text):
        self._alt, self._text = alt, text

    def alteration(self):
        return _Txt(self._alt) if self._alt else None

    def getText(self):
        return self._text


ORDERS = ((0, 1), (1, 0))
# delivery scripts: where each of the (up to three) decoration deliveries happens relative to duration (D) and pitch (P)
SCRIPTS = ('xDyPz', 'DxyPz', 'DPxyz', 'xyDPz', 'xDPyz', 'DxPzy')


def ob_c(d1: str, d2: str, num: str, pitch: str, alt: str, script: int, dup: int, shape: int) -> bool:
    """The real listener callbacks driven in the order ParseTreeWalker uses, with arbitrary payload texts:
    export == canonical order with decorations sorted and de-duplicated, whatever the delivery order/position."""
    ml = ctx.pick(1, 2)
    assume(1 <= len(d1) <= ml and 1 <= len(d2) <= ml)
    assume(len(num) == 1 and len(pitch) == 1 and len(alt) <= 1)
    assume(0 <= script < len(SCRIPTS) and 0 <= dup < 3 and 0 <= shape < 6)
    sc = SCRIPTS[choose(script, len(SCRIPTS))]
    du = choose(dup, 3)
    sh = choose(shape, 6)
    ndots = (0, 1, 2, 0, 1, 0)[sh]
    mark = ('', '', '', 'q', 'qq', 'p')[sh]
    third = (None, d1, d2)[du]       # a third delivery repeats the first or the second text
    deliveries = {'x': d1, 'y': d2, 'z': third}
    results = []
    for order in ORDERS:
        dl = dict(deliveries)
        if order == (1, 0):
            dl['x'], dl['y'] = d2, d1
        lst = KernSpineListener()
        try:
            lst.enterStart(None)
            for ch in sc:
                if ch == 'D':
                    lst.exitDuration(_DurCtx(num, ndots, mark if mark in ('q', 'qq') else '', mark if mark == 'p' else ''))
                elif ch == 'P':
                    lst.exitDiatonicPitchAndOctave(_Txt(pitch))
                elif dl[ch] is not None:
                    lst.exitNoteDecoration(_Txt(dl[ch]))
            lst.exitNote(_NoteCtx(alt, 'whole'))
        except (AttributeError, TypeError):
            assume(False)        # the callbacks use accessors the scripted contexts do not offer: stub contract broken, path discarded
        results.append(lst.token.export())
    parts = [num] + ['.'] * ndots + ([mark] if mark else []) + [pitch] + ([alt] if alt else [])
    decs = [d1] if d1 == d2 else ([d1, d2] if d1 < d2 else [d2, d1])
    exp = '@'.join(parts) + '·' + '·'.join(decs)
    check(results[0] == exp, lambda: f'export {concrete(results[0])!r}, canonical {concrete(exp)!r}')
    check(results[1] == results[0], lambda: f'delivery order changes the export: {concrete(results[0])!r} vs {concrete(results[1])!r}')
    return True


# ------------------------------------------------------------------ C01.d document fixed point
LAYOUTS = []


@native
def _layouts():
    if not LAYOUTS:
        for heads in (('**kern',), ('**kern', '**text'), ('**kern', '**kern'), ('**dynam', '**kern', '**harm'), ('**kern', '**fing', '**mxhm', '**root')):
            depth = ctx.pick({1: 2, 2: 2, 3: 1, 4: 0}, {1: 3, 2: 2, 3: 2, 4: 1})[len(heads)]
            for lay in sp.enumerate_layouts(len(heads), depth):
                LAYOUTS.append((heads, lay))
    return LAYOUTS


INSERTS = (None, ('null', '.'), ('null', '*'), ('gcomment', '!! global'))


def ob_d(d: int, pos: int, ins: int) -> bool:
    assume(0 <= d < len(POOL))
    assume(0 <= ins < len(INSERTS))
    di = choose(d, len(POOL))
    n = len(POOL[di].rows)
    assume(0 <= pos < n - 2)
    return _d_body(di, choose(pos, n - 2), choose(ins, len(INSERTS)))


def _short(t):
    return t if len(t) < 600 else t[:300] + ' ... [%d characters] ... ' % len(t) + t[-200:]


@native
def _doc_fixed_point(text, heads):
    full_text = text
    doc, errs = kp.loads(full_text)
    text = _short(text)
    check(not errs, f'import errors {[str(e) for e in errs]} on {text!r}')
    t1 = kp.dumps(doc, spine_types=heads)
    doc1, errs1 = kp.loads(t1)
    check(not errs1, f'default export {_short(t1)!r} of {text!r} does not re-import cleanly: {[str(e) for e in errs1]}')
    t2 = kp.dumps(doc1, spine_types=heads)
    check(t2 == t1, f'{text!r}: export {_short(t1)!r} re-exports as {_short(t2)!r}')
    # one Exporter object used for the extended and then for the default export answers like fresh ones
    from kernpy.core.exporter import Exporter, ExportOptions
    ex = Exporter()
    e_first = ex.export_string(doc, ExportOptions(spine_types=list(heads), kern_type=kp.Encoding.eKern))
    k_second = ex.export_string(doc, ExportOptions(spine_types=list(heads)))
    check(k_second == t1 and e_first == kp.dumps(doc, spine_types=heads, encoding=kp.Encoding.eKern),
          f'{text!r}: one Exporter used for ekern then kern gives {_short(k_second)!r}, a fresh default export {_short(t1)!r}')
    if '**kern' in heads:
        # the extended route is taken over the **kern spines: get_kern_from_ekern renames only the **ekern header back
        e1 = kp.dumps(doc, spine_types=['**kern'], encoding=kp.Encoding.eKern)
        k = kp.get_kern_from_ekern(e1)
        dock, errsk = kp.loads(k)
        check(not errsk, f'{text!r}: ekern -> kern text {_short(k)!r} does not re-import cleanly')
        e2 = kp.dumps(dock, spine_types=['**kern'], encoding=kp.Encoding.eKern)
        check(e2 == e1, f'{text!r}: extended export {_short(e1)!r} -> kern -> extended gives {_short(e2)!r}')
    return True


@native
def _d_body(di, pos, ins):
    D = POOL[di]
    rows = list(D.rows)
    what = INSERTS[ins]
    first = 1 if rows[0][0].kind == 'gcomment' else 0
    at = first + 1 + pos
    if at >= len(rows) - (1 if rows[-1][0].kind == 'gcomment' else 0):
        return True
    if what is not None:
        nxt = at
        while rows[nxt][0].kind == 'gcomment':
            nxt += 1
        rows.insert(at, [cells.Null(what[1])] * len(rows[nxt]) if what[0] == 'null' else [cells.GComment(what[1])])
    heads = sorted({c.text for r in rows for c in r if c.kind == 'header'})
    return _doc_fixed_point(cells.Doc(rows).text(), heads)


def ob_e(layout: int) -> bool:
    L = _layouts()
    assume(0 <= layout < len(L))
    return _e_body(choose(layout, len(L)))


@native
def _e_body(i):
    heads, lay = _layouts()[i]
    rows = sp.build_rows(list(heads), lay)
    rows.insert(2, ['=1'] * len(rows[1]))
    return _doc_fixed_point(sp.to_text(rows), sorted(set(heads)))


LONG = ((300, 0), (1200, 600), (4000, 37))     # (data rows, data row at which the kern spine splits for three rows; 0 = never)


def ob_f(k: int) -> bool:
    n = ctx.pick(2, 3)
    assume(0 <= k < n)
    return _f_body(choose(k, n))


@native
def _f_body(k):
    from sv.ref import longdoc
    D = longdoc.long_doc(LONG[k][0], True, LONG[k][1])
    return _doc_fixed_point(D.text(), ['**kern', '**text'])


# ------------------------------------------------------------------ C01.g thousands of different spellings in one spine
def _spellings():
    durs = ('1', '2', '4', '8', '16', '32', '64')
    pit = [l * k for l in 'cdefgab' for k in (1, 2)] + [l.upper() * k for l in 'cdefgab' for k in (1, 2)]
    return [d + dd + p + a + sg for d in durs for dd in ('', '.') for p in pit for a in ('', '#', '-') for sg in ('', 'L', 'J', "'")]


HEAD_NOTES = ("4c^'", '8.dd#L;', "2GG-('", "16ee'J^")            # written once at the top ...
TAIL_NOTES = ("4c'^", '8.dd#;L', "2GG-'(", "16ee^J'")            # ... and again, with the signifiers in another order, after thousands of other spellings


def ob_g(k: int) -> bool:
    assume(0 <= k < 3)
    return _g_body(choose(k, 3))


@native
def _g_body(k):
    """One **kern spine holding 300 / 1500 / 4400 (thorough: all 4704) pairwise different note spellings between two copies of four
    decorated notes written with their signifiers in different orders: the document is a fixed point (also through ekern) and the
    two copies have the same normal form -- however many other spellings the importer has seen in between."""
    sp = _spellings()
    n = (300, 1500, 4400 if not ctx.thorough() else len(sp))[k]
    body = sp[:n]
    text = '**kern\n*clefG2\n' + '\n'.join(HEAD_NOTES) + '\n' + '\n'.join(body) + '\n' + '\n'.join(TAIL_NOTES) + '\n*-\n'
    doc, errs = kp.loads(text)
    check(not errs, lambda: f'{n} spellings: import errors {[str(e) for e in errs][:3]}')
    for enc in (kp.Encoding.normalizedKern, kp.Encoding.eKern):
        ls = kp.dumps(doc, encoding=enc).split('\n')
        check(len(ls) == n + 12, lambda: f'{n} spellings: the {enc.name} export has {len(ls) - 1} lines, the text {n + 11}')
        head, tail = ls[2:6], ls[-6:-2]
        check(head == tail, lambda: f'after {n} other spellings the re-ordered copies {TAIL_NOTES} are exported as {tail}, the first copies {HEAD_NOTES} as {head} ({enc.name})')
    return _doc_fixed_point(text, ['**kern'])


def _desc_a(grid, k):
    return {'cell': _cell(grid, k).source()}


OBLIGATIONS = [
    Ob(id='C01.a', fn=ob_a, title='token fixed point through kern and through ekern (slot grids)',
       shard_of=lambda grid, k: k, shards={'quick': 16, 'thorough': 16}, budget_s={'quick': 170, 'thorough': 2400},
       witnesses=[{'grid': 0, 'k': 24}, {'grid': 5, 'k': 3}], min_confirmed=2500, enumerated='grid selector, slot index',
       bounds={'quick': 'the C03.b grids + chords of 2-3 notes from 7 forms + all barline forms', 'thorough': '9 pitches, all durations for rests'},
       describe=_desc_a),
    Ob(id='C01.b', fn=ob_b, title='canonicity: order, position and repetition of signifiers do not change the export',
       shard_of=lambda s, t, pp, rep, base: s, shards={'quick': 16, 'thorough': 16}, budget_s={'quick': 170, 'thorough': 3000},
       witnesses=[{'s': 0, 't': 1, 'pp': 1, 'rep': 1, 'base': 0}], min_confirmed=5000,
       enumerated='two signifier selectors over the canonical alphabet (derived by pairwise probing), position pair, repetition pattern, base note',
       bounds={'quick': '|canon|^2 ordered pairs x 2 position pairs x 3 repetition patterns x 1 base note',
               'thorough': 'x all 16 position pairs x 3 base notes'}),
    Ob(id='C01.c', fn=ob_c, title='ordering / de-duplication lemma on the real listener callbacks with arbitrary payload texts',
       shard_of=lambda d1, d2, num, pitch, alt, script, dup, shape: script + 6 * shape, shards={'quick': 18, 'thorough': 36},
       budget_s={'quick': 170, 'thorough': 2400},
       witnesses=[{'d1': 'L', 'd2': ';', 'num': '4', 'pitch': 'c', 'alt': '#', 'script': 0, 'dup': 1, 'shape': 1}], min_confirmed=100,
       symbolic='two decoration texts, duration digits, pitch text, alteration text (arbitrary strings)', enumerated='delivery script, repetition, dots/mark shape',
       stub_optional=True, stubs=['scripted walker: StubCtx objects exposing modernDuration/augmentationDot/graceNote/appoggiatura/alteration/getText fed to the real KernSpineListener callbacks'],
       bounds={'quick': 'decorations of 1 arbitrary char, duration 1 arbitrary char, pitch 1 char, alteration 0-1 char; 6 delivery scripts x 3 repetition patterns x 6 dot/mark shapes x both delivery orders',
               'thorough': 'decorations <= 2 chars'}),
    Ob(id='C01.d', fn=ob_d, title='document fixed point: pool documents with inserted null rows / comments',
       shard_of=lambda d, pos, ins: pos, shards={'quick': 8, 'thorough': 8}, budget_s={'quick': 120, 'thorough': 600},
       witnesses=[{'d': 0, 'pos': 2, 'ins': 1}], min_confirmed=100, enumerated='document, insertion position, inserted row kind',
       bounds={'quick': '6 pool documents x every row position x {nothing, ". row", "* row", global comment}', 'thorough': 'same'}),
    Ob(id='C01.f', fn=ob_f, title='document fixed point on long scores (hundreds to thousands of lines)',
       shard_of=lambda k: k, shards={'quick': 2, 'thorough': 3}, budget_s={'quick': 120, 'thorough': 600}, native_body=True,
       witnesses=[{'k': 0}], min_confirmed=2, enumerated='score length',
       bounds={'quick': 'kern + text scores of 300 and 1200 data rows (392 / 1555 lines) with barlines, rests, dotted and decorated notes, field and global comments, one split + join',
               'thorough': '+ 4000 data rows (about 5200 lines)'}),
    Ob(id='C01.g', fn=ob_g, title='thousands of pairwise different spellings in one spine between two differently ordered copies of the same notes: fixed point and one normal form',
       shard_of=lambda k: k, shards={'quick': 3, 'thorough': 3}, budget_s={'quick': 170, 'thorough': 900}, native_body=True,
       witnesses=[{'k': 0}], min_confirmed=3, enumerated='number of different spellings in between (3)',
       bounds={'quick': '300 / 1500 / 4400 different note spellings (7 durations x dot x 28 pitches x 3 accidentals x 4 signifiers)', 'thorough': '300 / 1500 / 4704'}),
    Ob(id='C01.e', fn=ob_e, title='document fixed point over spine-operator layouts (1-4 spines, split and join)',
       shard_of=lambda layout: layout, shards={'quick': 8, 'thorough': 16}, budget_s={'quick': 120, 'thorough': 1800},
       witnesses=[{'layout': 0}], min_confirmed=100, enumerated='layout selector',
       bounds={'quick': '5 header sets (1-4 spines, all 8 supported types); operator rows 2/2/1/0', 'thorough': 'operator rows 3/2/2/1'}),
]
