"""C06  Spine selection is column projection.

Anchors: Exporter.append_row / compute_header_type (per-node spine gate), Importer.run
(header identity propagation), Exporter.get_spine_types.
spine_ids and spine_types are symbolic containers (one symbolic boolean per member):
every subset of ids and of types is covered per layout.
"""
from sv.engine import ctx
from sv.engine.ob import Ob
from sv.engine.xh import assume, check, choose, native, concrete
from sv.ref import spinepath as sp

import kernpy as kp
from kernpy.core.exporter import Exporter, ExportOptions

META = {
    'outside': ['more than 3 spines / 4 live columns / 2 operator rows (quick), 3 (thorough)', 'instrument filtering (not part of the property)'],
    'assumptions': [],
}

TYPES = ('**kern', '**text', '**harm', '**foo')
HEADS = (('**kern', '**text'), ('**kern', '**kern'), ('**text', '**kern', '**kern'), ('**kern', '**harm', '**foo'), ('**kern',))
LAYOUTS = []
B_LAYOUTS = []
_CACHE = {}
NULLISH = ('.', '*', '')


def load(tier):
    global LAYOUTS
    LAYOUTS = []
    for heads in HEADS:
        n = len(heads)
        depth = ctx.pick({1: 2, 2: 2, 3: 1}, {1: 3, 2: 3, 3: 2})[n]
        for lay in sp.enumerate_layouts(n, depth):
            LAYOUTS.append((heads, lay))
    LAYOUTS.extend(sp.curated_layouts())      # deep hand-picked layouts (nested split + join next to another spine, ...)
    # C06.b (public keywords) runs on a stride sample of the layouts: the per-node gate itself is C06.a's
    global B_LAYOUTS
    step = ctx.pick(11, 12)
    B_LAYOUTS = list(range(0, len(LAYOUTS), step)) + list(range(len(LAYOUTS) - len(sp.curated_layouts()), len(LAYOUTS), 3))


class BVSet:
    """A set given by one (symbolic) boolean per member of a fixed universe: `x in s` is bits[index(x)]."""

    def __init__(self, universe, bits):
        self.universe = universe
        self.bits = bits

    def __contains__(self, x):
        for i, u in enumerate(self.universe):       # universe is concrete and small: plain loop, no hashing of proxies
            if u == x:
                return self.bits[i]
        return False

    def members(self):
        return [u for i, u in enumerate(self.universe) if self.bits[i]]


@native
def get(i):
    if i not in _CACHE:
        heads, lay = LAYOUTS[i]
        rows = sp.build_rows(list(heads), lay)
        # barline and null rows so that "all-null lines dropped" has something to bite on
        rows.insert(2, ['=1'] * len(rows[1]))
        # local-comment rows (one comment cell per live column) below the barline and in front of the terminators: comment cells
        # belong to their column's spine like any other cell
        rows.insert(3, ['!lc%d' % j for j in range(len(rows[2]))])
        if rows[-1] and all(c == '*-' for c in rows[-1]):
            rows.insert(len(rows) - 1, ['!end' if j == 0 else '!' for j in range(len(rows[-1]))])     # text in the first column only, empty local comments elsewhere
        text = sp.to_text(rows)
        model = sp.analyse(rows)
        doc, errs = kp.loads(text)
        full = kp.dumps(doc, spine_types=sorted(set(heads)))
        grid = [ln.split('\t') for ln in full.split('\n') if ln]
        _CACHE[i] = (heads, rows, model, doc, errs, grid, text)
    return _CACHE[i]


def expected(model, grid, keep):
    """keep(cell) -> bool (may be symbolic).  Column projection of the full export + all-null lines dropped."""
    out = []
    for r, cells in enumerate(model):
        row = [grid[r][c.col] for c in cells if keep(c)]
        if len(row) > 0 and not all(x in NULLISH for x in row):
            out.append('\t'.join(row))
    return ''.join(ln + '\n' for ln in out)


def ob_a(layout: int, i0: bool, i1: bool, i2: bool, t0: bool, t1: bool, t2: bool, t3: bool, ids_none: bool) -> bool:
    """Exporter.export_string under an arbitrary spine-id set and spine-type set."""
    assume(0 <= layout < len(LAYOUTS))
    heads, rows, model, doc, errs, grid, text = get(choose(layout, len(LAYOUTS)))
    check(not errs, 'import errors')
    check(len(grid) == len(rows) and all(len(a) == len(b) for a, b in zip(grid, rows)), 'full export grid differs in shape from the source')
    ids = BVSet((0, 1, 2), (i0, i1, i2))
    types = BVSet(TYPES, (t0, t1, t2, t3))
    if ids_none:
        assume(i0 and i1 and i2)          # canonical representative: bits unused
    opts = ExportOptions(spine_types=types, spine_ids=None if ids_none else ids)
    got = Exporter().export_string(doc, opts)
    exp = expected(model, grid, lambda c: (c.header in types) and (ids_none or c.spine in ids))
    check(got == exp, lambda: f'spine_ids={"None" if ids_none else concrete(ids.members())} spine_types={concrete(types.members())}: '
                              f'exported {concrete(got)!r}, projection {concrete(exp)!r}')
    return True


def ob_b(layout: int, ids: int, types: int, style: int) -> bool:
    """Public keywords: dumps(doc, spine_ids=[...], spine_types=[...]) == projection; None = all."""
    nl = len(B_LAYOUTS)
    assume(0 <= layout < nl)
    assume(0 <= ids < 9)         # 0..7: subset of {0,1,2} as a list; 8: None
    assume(0 <= types < 17)      # 0..15: subset of TYPES; 16: None (all known types)
    assume(0 <= style < 2)
    return _b_body(B_LAYOUTS[choose(layout, nl)], choose(ids, 9), choose(types, 17), choose(style, 2))


@native
def _b_body(i, ids, types, style):
    heads, rows, model, doc, errs, grid, text = get(i)
    idl = None if ids == 8 else [k for k in range(3) if ids >> k & 1]
    tyl = None if types == 16 else [t for k, t in enumerate(TYPES) if types >> k & 1]
    if style == 1:                      # reversed order / tuple instead of list must not matter
        idl = None if idl is None else tuple(reversed(idl))
        tyl = None if tyl is None else tuple(reversed(tyl))
    kw = {}
    if idl is not None or style == 0:
        kw['spine_ids'] = idl
    if tyl is not None or style == 0:
        kw['spine_types'] = tyl
    got = kp.dumps(doc, **kw)
    from kernpy.core.tokens import HEADERS
    tset = set(HEADERS) if tyl is None else set(tyl)
    exp = expected(model, grid, lambda c: c.header in tset and (idl is None or c.spine in idl))
    check(got == exp, f'dumps(spine_ids={idl}, spine_types={tyl}) = {got!r}, projection {exp!r}')
    # one ExportOptions object used for another (one-spine) document first: the options are not the exporter's to change
    small, _ = kp.loads('**kern\n4c\n*-\n')
    o = ExportOptions(spine_types=list(tset), spine_ids=None if idl is None else list(idl))
    before = (list(o.spine_types), None if o.spine_ids is None else list(o.spine_ids))
    Exporter().export_string(small, o)
    got2 = Exporter().export_string(doc, o)
    check(got2 == exp, f'an ExportOptions object (spine_ids={idl}, spine_types={sorted(tset)}) first used on a one-spine document then gives {got2!r}, projection {exp!r}')
    check((list(o.spine_types), None if o.spine_ids is None else list(o.spine_ids)) == before, f'the export changed the options object: {before} -> {(o.spine_types, o.spine_ids)}')
    return True


def ob_c(layout: int, types: int) -> bool:
    """spine_types(doc, headers) == header line of the projection."""
    assume(0 <= layout < len(LAYOUTS))
    assume(0 <= types < 18)      # 16: None, 17: an absent type only
    return _c_body(choose(layout, len(LAYOUTS)), choose(types, 18))


@native
def _c_body(i, types):
    heads, rows, model, doc, errs, grid, text = get(i)
    from kernpy.core.tokens import HEADERS
    if types == 16:
        arg = None
        tset = set(HEADERS)
    elif types == 17:
        arg = ['**mens']
        tset = {'**mens'}
    else:
        arg = [t for k, t in enumerate(TYPES) if types >> k & 1]
        tset = set(arg)
    got = kp.spine_types(doc, headers=arg)
    exp = [h for h in heads if h in tset]
    check(got == exp, f'spine_types(doc, headers={arg}) = {got}, header line of the projection = {exp}')
    if types == 16:
        check(kp.spine_types(doc) == exp, 'spine_types(doc) without headers differs from headers=None')
    return True


def _desc(layout, **kw):
    heads, lay = LAYOUTS[layout]
    d = {'text': get(layout)[6]}
    d.update(kw)
    return d


UNTRACE = [('kernpy.core.exporter', 'Exporter.export_token'), ('kernpy.core.tokens', 'TokenCategoryHierarchyMapper.valid')]

# ------------------------------------------------------------------ C06.d first call of an interpreter, then the observed exports
FRESH_REQ = [{'first spine': {'spine_ids': [0], 'cols': [0]}, 'text only': {'spine_types': ['**text'], 'cols': [1]}, 'all': {'cols': [0, 1]}}, {'kern and harm': {'spine_types': ['**kern', '**harm'], 'cols': [0, 2]}, 'second': {'spine_ids': [1], 'cols': [1]}}]


def ob_d(pre: int, d: int) -> bool:
    from sv.ref import fresh
    assume(0 <= pre < len(fresh.PRELUDES) and 0 <= d < 2)
    return _d_body(choose(pre, len(fresh.PRELUDES)), choose(d, 2))


@native
def _d_body(pre, d):
    from sv.ref import fresh, docs as _docs
    P = _docs.pool()
    D, other = (P[0], P[1]) if d == 0 else (P[1], P[0])
    bad = fresh.mismatches(pre, D, other.text(), FRESH_REQ[d])
    check(not bad, '; '.join(bad)[:1500])
    return True


OBLIGATIONS = [
    Ob(id='C06.d', fn=ob_d, title='histories from the first call of a fresh interpreter: spine selection is still the column projection',
       shard_of=lambda pre, d: pre, shards={'quick': 5, 'thorough': 5}, budget_s={'quick': 150, 'thorough': 600}, native_body=True,
       witnesses=[{'pre': 0, 'd': 0}], min_confirmed=15, enumerated='first call (10 kinds, incl. none), document (2)',
       realized_at=['fresh python interpreter per history (subprocess)'],
       bounds={'quick': '10 first calls x 2 pool documents (kern + text with chord / decorations / accidentals; kern + dynam + harm)', 'thorough': 'same'}),
    Ob(id='C06.a', fn=ob_a, title='export under arbitrary spine-id and spine-type sets == column projection',
       shard_of=lambda layout, *a, **k: layout, shards={'quick': 16, 'thorough': 16}, budget_s={'quick': 170, 'thorough': 2400},
       untrace=UNTRACE,
       witnesses=[{'layout': 3, 'i0': True, 'i1': False, 'i2': True, 't0': True, 't1': True, 't2': False, 't3': False, 'ids_none': False}],
       min_confirmed=500,
       symbolic='spine_ids as 3 symbolic booleans (or None), spine_types as 4 symbolic booleans: all subsets',
       enumerated='layout selector',
       bounds={'quick': '5 header sets (1-3 spines, incl. an unknown type); operator rows <= 2 (1-2 spines), 1 (3 spines)',
               'thorough': 'operator rows <= 3 (1-2 spines), 2 (3 spines)'}, describe=_desc),
    Ob(id='C06.b', fn=ob_b, title='public keywords spine_ids / spine_types (lists, tuples, None, omitted)',
       shard_of=lambda layout, ids, types, style: layout, shards={'quick': 16, 'thorough': 16}, budget_s={'quick': 170, 'thorough': 2400},
       witnesses=[{'layout': 1, 'ids': 5, 'types': 3, 'style': 0}], min_confirmed=1000, enumerated='layout, id subset, type subset, argument style',
       bounds={'quick': 'every 11th C06.a layout x 9 id selections x 17 type selections x 2 styles', 'thorough': 'every 12th layout of the thorough layout set'},
       describe=_desc),
    Ob(id='C06.c', fn=ob_c, title='spine_types(doc, headers) == header line of the projection',
       shard_of=lambda layout, types: layout, shards={'quick': 8, 'thorough': 16}, budget_s={'quick': 120, 'thorough': 900},
       witnesses=[{'layout': 3, 'types': 16}], min_confirmed=300, enumerated='layout, header selection',
       bounds={'quick': 'all C06.a layouts x 18 selections (subsets, None, absent type)', 'thorough': 'same'}, describe=_desc),
]
