"""C20  File and command-line paths equal the in-memory API.

Anchors: Importer.import_file / import_string, _io._write, exporter.kern_to_ekern / ekern_to_krn /
get_kern_from_ekern, __main__.handle_kern2ekern / handle_ekern2kern.
The string lemma runs on symbolic text; file and CLI behaviour is realised at the I/O boundary
(real temporary files under a scratch directory removed after each path).
"""
import contextlib
import io
import os
import shutil
import sys
import tempfile

from sv.engine import ctx
from sv.engine.ob import Ob
from sv.engine.xh import assume, check, choose, concrete, native
from sv.ref import docs
from sv.ref.snap import snap, diff

import kernpy as kp
from kernpy.core.tokens import TokenCategory as TC

META = {
    'outside': ['behaviour of open()/csv on arbitrary bytes, locale-dependent default encodings (the sandbox runs in UTF-8 mode), process spawning, permissions: '
                'out of reach of symbolic execution, stated rather than approximated', 'the polish-scores command', 'texts longer than the slot bounds in the string lemma'],
    'assumptions': ['the command line is run as python -m kernpy in a fresh interpreter per invocation (kernpy imported from the tree under test)'],
}


# ------------------------------------------------------------------ C20.a string lemma on symbolic text
def spec_kern_from_ekern(s):
    """Specification by a character loop: every '**ekern' becomes '**kern', then both separator characters are deleted."""
    out = []
    i = 0
    n = len(s)
    while i < n:
        if s[i:i + 7] == '**ekern':
            out.append('**kern')
            i += 7
        else:
            out.append(s[i])
            i += 1
    return ''.join(ch for ch in ''.join(out) if ch != '@' and ch != '·')


def ob_a(s: str, pin: bool) -> bool:
    n = ctx.pick(5, 7)
    assume(len(s) <= n)
    text = ('**ekern\n' + s) if pin else s
    got = kp.get_kern_from_ekern(text)
    exp = spec_kern_from_ekern(text)
    check(got == exp, lambda: f'get_kern_from_ekern({concrete(text)!r}) = {concrete(got)!r}, specification {concrete(exp)!r}')
    return True


# ------------------------------------------------------------------ C20.b load(file) == loads(text); dump == dumps
POOL = []


def load(tier):
    global POOL
    P = docs.pool()
    POOL = [P[0].text(), P[2].text(), P[4].text(), '**kern\t**text\n*clefG2\t*\n4c\tDó-\n4d\tña "x"\n4e\t, ;\n4f\tque\u0301\n4g\t\u212bngstro\u0308m\n*-\t*-\n',     # precomposed and decomposed accents, a compatibility singleton
            '!!!COM: x\n\n**kern\t**kern\n*clefG2\t*clefF4\n\n=1\t=1\n4c\t4C\n\n\n4d\t4D\n==\t==\n*-\t*-\n\n!!!end\n\n']


@contextlib.contextmanager
def scratch():
    d = tempfile.mkdtemp(prefix='c20_', dir=os.environ.get('VERIF_TMP'))
    try:
        yield d
    finally:
        shutil.rmtree(d, ignore_errors=True)


def _variant(text, crlf, final_nl):
    t = text if final_nl else text.rstrip('\n')
    return t.replace('\n', '\r\n') if crlf else t


def ob_b(d: int, crlf: bool, final_nl: bool) -> bool:
    assume(0 <= d < len(POOL))
    return _b_body(choose(d, len(POOL)), bool(crlf), bool(final_nl))


@native
def _b_body(d, crlf, final_nl):
    text = _variant(POOL[d], crlf, final_nl)
    with scratch() as tmp:
        path = os.path.join(tmp, 'score.krn')
        with open(path, 'w', encoding='utf-8', newline='') as f:
            f.write(text)
        fdoc, ferrs = kp.load(path)
        sdoc, serrs = kp.loads(text)
        dd = diff(snap(fdoc), snap(sdoc))
        check(dd == '' and len(ferrs) == len(serrs), f'load(file) differs from loads(text) for crlf={crlf} final_newline={final_nl}: {dd}')
        ref, _ = kp.loads(POOL[d])
        check(diff(snap(sdoc), snap(ref)) == '', f'line-end variant crlf={crlf} final_newline={final_nl} imports differently from the LF text')
        from pathlib import Path
        pdoc, _ = kp.load(Path(path))
        check(diff(snap(pdoc), snap(sdoc)) == '', 'load(Path) differs from load(str)')
        # histories: what was done with an earlier result of load(), or an earlier version of the file, does not show in a later load()
        ref_snap = snap(sdoc)
        for n in fdoc.tree.stages[-1]:
            n.token.encoding = 'changed by the caller'
        try:
            fdoc.to_transposed('M2', 'up')
        except Exception:
            pass
        again, _ = kp.load(path)
        check(diff(snap(again), ref_snap) == '', f'a second load() of the same file after the first result was modified differs from loads(text): {diff(snap(again), ref_snap)}')
        st = os.stat(path)
        other = text.replace('4c', '4a').replace('**kern', '**text', 1) if '4c' in text else text.replace('**kern', '**text', 1)
        if other != text and len(other.encode('utf-8')) == len(text.encode('utf-8')):
            with open(path, 'w', encoding='utf-8', newline='') as f:
                f.write(other)
            os.utime(path, ns=(st.st_atime_ns, st.st_mtime_ns))       # same size, same time stamp, other content
            newer, _ = kp.load(path)
            odoc, _ = kp.loads(other)
            check(diff(snap(newer), snap(odoc)) == '', 'load() of a file whose content changed (same size, same time stamp) differs from loads(new text)')
    return True


# ------------------------------------------------------------------ C20.b2 multi-byte characters across the read-buffer boundaries
BOUNDARIES = (512, 1024, 2048, 4096, 8192, 16384, 65536)
WIDE = ('\u00f1', '\u20ac', '\U0001d11e')          # 2, 3 and 4 bytes in UTF-8


def ob_b2(b: int, w: int, shift: int, crlf: bool) -> bool:
    assume(0 <= b < len(BOUNDARIES) and 0 <= w < len(WIDE) and 0 <= shift < 4)
    return _b2_body(choose(b, len(BOUNDARIES)), choose(w, len(WIDE)), choose(shift, 4), bool(crlf))


@native
def _b2_body(b, w, shift, crlf):
    """A score file whose non-ASCII lyric syllable lies across byte offset B (every byte of the character in turn sits at B):
    whatever block size the file is read or sniffed in, load(file) is loads(text)."""
    B, ch = BOUNDARIES[b], WIDE[w]
    width = len(ch.encode('utf-8'))
    if shift >= width:
        return True
    nl = '\r\n' if crlf else '\n'
    head = f'!!!OTL: {{pad}}{nl}**kern\t**text{nl}*clefG2\t*{nl}4c\tla{nl}4d\t'
    fixed = len(head.format(pad='').encode('utf-8'))
    pad = B - shift - fixed             # the character starts `shift` bytes before B
    if pad < 0:
        return True
    text = head.format(pad='x' * pad) + ch + f'\u00f3n{nl}4e\tD\u00f3{ch}{nl}*-\t*-{nl}'
    raw = text.encode('utf-8')
    check(raw[B - shift:B - shift + width] == ch.encode('utf-8'), 'harness: the character is not where it was meant to be')
    with scratch() as tmp:
        path = os.path.join(tmp, 'score.krn')
        with open(path, 'wb') as f:
            f.write(raw)
        fdoc, ferrs = kp.load(path)
        sdoc, serrs = kp.loads(text)
        dd = diff(snap(fdoc), snap(sdoc))
        check(dd == '' and len(ferrs) == len(serrs), lambda: f'load(file) differs from loads(text) when the {width}-byte character {ch!r} lies across byte offset {B} (starts {shift} bytes before it, crlf={crlf}): {dd[:300]}')
        check(kp.dumps(fdoc) == kp.dumps(sdoc), 'exports of load(file) and loads(text) differ')
    return True


OPTSETS = ({}, {'encoding': kp.Encoding.eKern}, {'spine_types': ['**kern'], 'include': kp.BEKERN_CATEGORIES, 'encoding': kp.Encoding.bEkern},
           {'exclude': [TC.DECORATION], 'spine_ids': [0]}, {'from_measure': 1, 'to_measure': 1, 'spine_types': ['**kern']},
           {'spine_ids': []}, {'to_measure': 0}, {'include': []}, {'spine_types': [], 'encoding': kp.Encoding.eKern}, {'from_measure': 0, 'to_measure': 1})
DEPTHS = ((), ('x',), ('x', 'y'), ('x', 'y', 'z'))


def ob_c(d: int, o: int, depth: int, exists: bool, as_path: bool) -> bool:
    assume(0 <= d < len(POOL) and 0 <= o < len(OPTSETS) and 0 <= depth < len(DEPTHS))
    return _c_body(choose(d, len(POOL)), choose(o, len(OPTSETS)), choose(depth, len(DEPTHS)), bool(exists), bool(as_path))


@native
def _c_body(d, o, depth, exists, as_path):
    doc, _ = kp.loads(POOL[d])
    opts = OPTSETS[o]
    try:
        exp = kp.dumps(doc, **opts)
    except Exception as e:
        exp = e
    with scratch() as tmp:
        sub = os.path.join(tmp, *DEPTHS[depth])
        if exists:
            os.makedirs(sub, exist_ok=True)
        path = os.path.join(sub, 'out.krn')
        if exists and isinstance(exp, str):
            # the target already holds the same text with other line ends: it must be replaced by exactly what dumps returns
            with open(path, 'w', encoding='utf-8', newline='') as f:
                f.write(exp.replace('\n', '\r\n'))
        from pathlib import Path
        target = Path(path) if as_path else path
        try:
            kp.dump(doc, target, **opts)
        except Exception as e:
            check(isinstance(exp, Exception) and type(e) is type(exp),
                  f'dump(doc, {len(DEPTHS[depth])} missing directory levels{" (existing)" if exists else ""}, {opts}) raised {type(e).__name__}: {e}')
            return True
        check(not isinstance(exp, Exception), f'dumps raised {exp!r} but dump wrote a file')
        with open(path, encoding='utf-8', newline='') as f:
            got = f.read()
        check(got == exp, f'dump wrote {got!r}, dumps returns {exp!r} (options {opts})')
    return True


# ------------------------------------------------------------------ C20.d command line converters
# (durationless grace notes: their extended form 'cc·q' has a decoration separator but no token separator)
SCORES = ('**kern\n*clefG2\n=1\n4c#L\nccq\n8.r;\n4e 4g-\n==\n*-\n',
          # (a split and join in the kern spine LEFT of the text spine: columns shift below the split)
          '**kern\t**text\t**kern\t**kern\n*clefF4\t*\t*clefG2\t*clefG2\n=1\t=1\t=1\t=1\n4C\tla\t4e\t4g;\n*^\t*\t*\t*\n4E\t4G\tlu\t4f\t4a\n8F\t8A\t.\t8g\t8b\n'
          '*v\t*v\t*\t*\t*\n2DJ\tli\t2f#\t2a\n==\t==\t==\t==\n*-\t*-\t*-\t*-\n',
          '**kern\t**kern\n*clefG2\t*clefG2\n*M4/4\t*M4/4\n4c\t4e\nddq\t.\n=2\t=2\n4dn\t4f\n*-\t*-\n')


def api_ekern(text):
    doc, errs = kp.loads(text)
    return kp.dumps(doc, spine_types=['**kern'], include=kp.BEKERN_CATEGORIES, encoding=kp.Encoding.eKern)


def _main(argv):
    """The command line, as a user runs it: a fresh interpreter per invocation (state kept by an earlier invocation of the
    harness process must not mask or fake anything).  kernpy is imported from the same tree as in this process."""
    import subprocess
    env = dict(os.environ)
    root = os.path.dirname(os.path.dirname(os.path.abspath(kp.__file__)))
    env['PYTHONPATH'] = root + (os.pathsep + env['PYTHONPATH'] if env.get('PYTHONPATH') else '')
    p = subprocess.run([sys.executable, '-m', 'kernpy'] + argv, env=env, capture_output=True, text=True, timeout=300)
    return p.stdout, p.stderr


def _python(code, argv):
    import subprocess
    env = dict(os.environ)
    root = os.path.dirname(os.path.dirname(os.path.abspath(kp.__file__)))
    env['PYTHONPATH'] = root + (os.pathsep + env['PYTHONPATH'] if env.get('PYTHONPATH') else '')
    return subprocess.run([sys.executable, '-c', code] + argv, env=env, capture_output=True, text=True, timeout=300)


LAYOUTS = ('single', 'single+output', 'dir', 'dir-recursive', 'api-sequence')


def ob_d(layout: int, order: int, crlf: bool) -> bool:
    assume(0 <= layout < len(LAYOUTS) and 0 <= order < 6)
    return _d_body(choose(layout, len(LAYOUTS)), choose(order, 6), bool(crlf))


@native
def _d_body(layout, order, crlf):
    import itertools
    perm = list(itertools.permutations(range(3)))[order]
    lay = LAYOUTS[layout]
    with scratch() as tmp:
        files = {}
        names = ('a.krn', 'b.krn', 'c.kern')
        for k, name in enumerate(names):
            text = SCORES[perm[k]]
            sub = tmp if (lay != 'dir-recursive' or k == 0) else os.path.join(tmp, 'deep', 'er')
            os.makedirs(sub, exist_ok=True)
            p = os.path.join(sub, name)
            with open(p, 'w', encoding='utf-8', newline='') as f:
                f.write(text.replace('\n', '\r\n') if crlf else text)
            files[p] = text
        if lay == 'dir-recursive':
            # the same file NAME in another directory is another file
            p2 = os.path.join(tmp, 'deep', 'a.krn')
            with open(p2, 'w', encoding='utf-8', newline='') as f:
                f.write(SCORES[perm[1]])
            files[p2] = SCORES[perm[1]]
        with open(os.path.join(tmp, 'ignored.txt'), 'w') as f:
            f.write('not a score')
        if lay == 'single':
            targets = {p: t for p, t in list(files.items())[:1]}
            for p in targets:
                _main(['--kern2ekern', '--input_path', p, '--verbose', '0'])
            outs = {p: os.path.splitext(p)[0] + '.ekrn' for p in targets}
        elif lay == 'single+output':
            targets = {p: t for p, t in list(files.items())[1:2]}
            outs = {}
            for p in targets:
                outs[p] = os.path.join(tmp, 'custom_name.ekrn')
                _main(['--kern2ekern', '--input_path', p, '--output_path', outs[p], '--verbose', '0'])
        elif lay == 'api-sequence':
            # kp.kern_to_ekern called for the three files one after another in ONE interpreter
            targets = dict(files)
            outs = {p: os.path.splitext(p)[0] + '.ekrn' for p in targets}
            code = 'import sys, kernpy as kp\nfor p in sys.argv[1:]:\n    kp.kern_to_ekern(p, p.rsplit(".", 1)[0] + ".ekrn")\n'
            r = _python(code, list(files))
            check(r.returncode == 0, f'kp.kern_to_ekern sequence failed: {r.stderr[-400:]}')
        else:
            argv = ['--kern2ekern', '--input_path', tmp, '--verbose', '0'] + (['-r'] if lay == 'dir-recursive' else [])
            _main(argv)
            targets = dict(files)
            outs = {p: os.path.splitext(p)[0] + '.ekrn' for p in targets}
        for p, text in targets.items():
            check(os.path.exists(outs[p]), f'{lay}: no output file for {os.path.basename(p)}')
            with open(outs[p], encoding='utf-8', newline='') as f:
                got = f.read()
            exp = api_ekern(text)
            check(got == exp, f'{lay}: --kern2ekern wrote {got!r} for {os.path.basename(p)}, the API produces {exp!r}')
            # ekern -> kern -> ekern round trip through the other converter
            back = outs[p][:-5] + '.back.ekrn'
            shutil.copy(outs[p], back)
            kpath = back[:-5] + '.krn'
            with open(kpath, 'w', encoding='utf-8', newline='') as f:        # an older copy with other line ends is in the way
                f.write(kp.get_kern_from_ekern(exp).replace('\n', '\r\n'))
            _main(['--ekern2kern', '--input_path', back, '--verbose', '0'])
            with open(kpath, encoding='utf-8', newline='') as f:
                ktext = f.read()
            check(ktext == kp.get_kern_from_ekern(exp), f'{lay}: --ekern2kern wrote {ktext!r}, get_kern_from_ekern gives {kp.get_kern_from_ekern(exp)!r}')
            again = api_ekern(ktext)
            check(again == exp, f'{lay}: ekern -> kern -> ekern of {os.path.basename(p)} gives {again!r}, original ekern {exp!r}')
        if lay == 'dir':
            check(not os.path.exists(os.path.join(tmp, 'ignored.ekrn')), 'a non-score file was converted')
    return True


def ob_e(layout: int, suffix: int) -> bool:
    """--ekern2kern on a directory: .ekrn and .ekern files, recursive or not."""
    assume(0 <= layout < 2 and 0 <= suffix < 2)
    return _e_body(choose(layout, 2), choose(suffix, 2))


@native
def _e_body(recursive, suffix):
    with scratch() as tmp:
        sub = os.path.join(tmp, 'in', 'ner')
        os.makedirs(sub)
        texts = [api_ekern(s) for s in SCORES]
        paths = [os.path.join(tmp, 'one' + ('.ekrn', '.ekern')[suffix]), os.path.join(tmp, 'two.ekrn'), os.path.join(sub, 'three' + ('.ekern', '.ekrn')[suffix])]
        for p, t in zip(paths, texts):
            with open(p, 'w', encoding='utf-8', newline='') as f:
                f.write(t)
        _main(['--ekern2kern', '--input_path', tmp, '--verbose', '0'] + (['-r'] if recursive else []))
        for k, (p, t) in enumerate(zip(paths, texts)):
            out = os.path.splitext(p)[0] + '.krn'
            expected_exists = recursive or k < 2
            check(os.path.exists(out) == expected_exists, f'recursive={bool(recursive)}: output for {os.path.relpath(p, tmp)} exists={os.path.exists(out)}')
            if expected_exists:
                with open(out, encoding='utf-8', newline='') as f:
                    got = f.read()
                check(got == kp.get_kern_from_ekern(t), f'--ekern2kern wrote {got!r}, the API gives {kp.get_kern_from_ekern(t)!r}')
    return True


OBLIGATIONS = [
    Ob(id='C20.a', fn=ob_a, title='get_kern_from_ekern on arbitrary text == character-loop specification',
       shard_of=lambda s, pin: len(s), shards={'quick': 6, 'thorough': 8}, budget_s={'quick': 170, 'thorough': 2400},
       witnesses=[{'s': '4@c·L', 'pin': True}, {'s': 'a@b', 'pin': False}], min_confirmed=50,
       symbolic='text (arbitrary Unicode string), with and without a pinned **ekern header line',
       bounds={'quick': 'text <= 5 chars (+ pinned header)', 'thorough': 'text <= 7 chars'}),
    Ob(id='C20.b', fn=ob_b, title='load(file) == loads(text) for LF / CRLF, with / without final newline, non-ASCII lyrics, str and Path',
       budget_s={'quick': 120, 'thorough': 600}, witnesses=[{'d': 0, 'crlf': True, 'final_nl': False}], min_confirmed=16,
       enumerated='document, line ending, final newline', realized_at=['open() / csv.reader in Importer.import_file (real temporary files)'],
       bounds={'quick': '5 documents (one with blank lines everywhere) x {LF, CRLF} x {final newline, none}', 'thorough': 'same'}),
    Ob(id='C20.b2', fn=ob_b2, title='load(file) == loads(text) when a multi-byte character lies across a read-buffer boundary',
       budget_s={'quick': 120, 'thorough': 600}, witnesses=[{'b': 1, 'w': 0, 'shift': 1, 'crlf': False}], min_confirmed=80,
       enumerated='boundary (7), character width (2-4 bytes), byte of the character at the boundary, line ending',
       realized_at=['open() / csv.reader in Importer.import_file (real temporary files)'],
       bounds={'quick': 'byte offsets 512 .. 65536 x 3 characters x each of their bytes at the boundary x {LF, CRLF}', 'thorough': 'same'}),
    Ob(id='C20.c', fn=ob_c, title='dump writes exactly what dumps returns, creating 0-3 missing directory levels',
       shard_of=lambda d, o, depth, exists, as_path: o, shards={'quick': 10, 'thorough': 10}, budget_s={'quick': 150, 'thorough': 600},
       witnesses=[{'d': 0, 'o': 1, 'depth': 2, 'exists': False, 'as_path': False}], min_confirmed=200,
       enumerated='document, option set (10, incl. falsy values), directory depth (0-3), directory and a CRLF copy of the target pre-existing, str / Path', realized_at=['_io._write (real temporary files)'],
       bounds={'quick': '5 x 10 x 4 x 2 x 2', 'thorough': 'same'}),
    Ob(id='C20.d', fn=ob_d, title='--kern2ekern (single file, explicit output, directory, recursive) writes what the API produces; converter round trip',
       native_body=True,
       shard_of=lambda layout, order, crlf: layout + 5 * order, shards={'quick': 15, 'thorough': 15}, budget_s={'quick': 150, 'thorough': 600},
       witnesses=[{'layout': 2, 'order': 0, 'crlf': False}], min_confirmed=40,
       enumerated='invocation layout (5, incl. three kp.kern_to_ekern calls in one interpreter), order of three scores with 1 / 3 / 2 kern spines over the file names (6), line ending',
       realized_at=['python -m kernpy in a fresh interpreter per invocation, real temporary files'],
       bounds={'quick': '5 x 6 x 2 invocations, 1-3 files each (.krn / .kern)', 'thorough': 'same'}),
    Ob(id='C20.e', fn=ob_e, title='--ekern2kern on directories (.ekrn / .ekern, recursive or not)',
       native_body=True,
       budget_s={'quick': 120, 'thorough': 600}, witnesses=[{'layout': 1, 'suffix': 0}], min_confirmed=4, enumerated='recursive flag, suffix arrangement',
       realized_at=['python -m kernpy in a fresh interpreter per invocation, real temporary files'], bounds={'quick': '2 x 2', 'thorough': 'same'}),
]
