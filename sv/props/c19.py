"""C19  Concatenation indexes address the fragments.

Anchors: Generic.concat (incremental prefix import, index bookkeeping),
Document.measures_count, Exporter.export_string.
Scores of C07's shapes are cut in front of barline lines by a symbolic cut mask.
"""
from sv.engine import ctx
from sv.engine.ob import Ob
from sv.engine.xh import assume, check, choose, native
from sv.ref import measures as rm
from sv.ref.snap import snap, diff

import kernpy as kp

META = {
    'outside': ['cuts that are not in front of a barline line (a fragment boundary inside a measure has no measure index of its own)',
                'more than 5 barline lines (6 fragments); separators other than newline, empty and the default'],
    'assumptions': ['with the empty separator every fragment but the last keeps its trailing newline, so that the joined text is the score'],
}


def _shapes(tier):
    out = []
    import itertools
    for M in ((1, 2, 3) if tier == 'quick' else (1, 2, 3, 4)):
        for lens in itertools.product((0, 1, 2) if (M <= 2 or tier != 'quick') else (0, 1), repeat=M):
            if tier != 'quick' and M == 4 and sum(lens) > 4:
                continue
            for opening in (0, 1):
                for pickup in (0, 1):
                    for final in (0, 1):
                        for ks in (1, 2):
                            if ks == 2 and M >= (3 if tier == 'quick' else 4):
                                continue
                            out.append((M, tuple(lens), opening, pickup, final, ks, 0))
    # the pickup (or the first measure) starts with a chord / a rest / a decorated note in every spine: what opens measure 1
    # when the first fragment is only the header and the pickup
    for M in (1, 2):
        for lens in ((1,), (1, 1), (0, 1)):
            if len(lens) != M:
                continue
            for opening in (0, 1):
                for final in (0, 1):
                    for fk, ks in ((1, 1), (1, 2), (2, 1), (3, 1)):
                        out.append((M, tuple(lens), opening, 1, final, ks, 0, fk))
    # invisible barlines (=2-) inside the score: they delimit measures and fragments like any other barline
    for M in (2, 3):
        for lens in ((1,) * M, (2, 1, 0)[:M]):
            for opening in (0, 1):
                for pickup in (0, 1):
                    for final in (0, 1):
                        for hb in (16, 32):
                            out.append((M, tuple(lens), opening, pickup, final, 1, 0, 0, hb))
    return out


SHAPES = []
SEPS = ('\n', '', None)    # None = omit the keyword (documented default: newline)


def load(tier):
    global SHAPES
    SHAPES = _shapes(tier)


@native
def fragments(sh, mask):
    """Cut the score in front of the barline lines selected by `mask` (bit i = i-th barline line).
    Returns (list of line groups, number of barline lines)."""
    sc = rm.build(*sh)
    bars = [i for i, ln in enumerate(sc.lines) if ln.kind == 'bar' and i > 0]
    cuts = [b for j, b in enumerate(bars) if mask >> j & 1]
    groups, prev = [], 0
    for c in cuts:
        groups.append(sc.lines[prev:c])
        prev = c
    groups.append(sc.lines[prev:])
    return sc, groups, len(bars)


def ob_a(shape: int, mask: int, sep: int) -> bool:
    assume(0 <= shape < len(SHAPES))
    assume(0 <= sep < 3)
    si = choose(shape, len(SHAPES))
    nb = _nbars(si)
    assume(0 <= mask < 2 ** nb)
    return _body(si, choose(mask, 2 ** nb), choose(sep, 3))


@native
def _nbars(si):
    sc = rm.build(*SHAPES[si])
    return min(5, sum(1 for i, ln in enumerate(sc.lines) if ln.kind == 'bar'))


@native
def _body(si, mask, sepi):
    sh = SHAPES[si]
    sc, groups, nb = fragments(sh, mask)
    if not rm.measure_starts(sc):
        return True          # no measure at all: measures_count() raises by contract, outside the domain
    sep = SEPS[sepi]
    eff = '\n' if sep is None else sep
    texts = ['\n'.join('\t'.join(ln.cells) for ln in g) for g in groups]
    if eff == '':
        texts = [t + '\n' for t in texts]
    joined = eff.join(texts)
    ref_doc, ref_errs = kp.loads(joined)
    check(not ref_errs, f'the joined text does not import cleanly: {ref_errs}')
    # the first fragment alone must already contain a measure, otherwise measures_count() raises (documented contract)
    # (decided by the text-level model, not by asking kernpy: a barline line or a note / rest / chord line opens a measure)
    if not any(ln.kind in ('bar', 'data') for ln in groups[0]):
        try:
            kp.concat(texts) if sep is None else kp.concat(texts, separator=sep)
        except Exception:
            return True      # measureless first fragment: outside (no measure index exists for it)
    doc, idx = kp.concat(texts) if sep is None else kp.concat(texts, separator=sep)
    d = diff(snap(doc), snap(ref_doc))
    check(d == '', f'concat document differs from loads(joined): {d}')
    check(len(idx) == len(texts), f'{len(idx)} index pairs for {len(texts)} fragments: {idx}')
    for i in range(len(idx) - 1):
        check(idx[i + 1][0] == idx[i][1] + 1, f'pairs are not consecutive: {idx}')
    check(idx[-1][1] == doc.measures_count(), f'last pair {idx[-1]} does not end at measures_count() = {doc.measures_count()}')
    M = len(rm.measure_starts(sc))
    check(idx[-1][1] == M, f'last pair {idx[-1]} does not end at the number of measures of the joined score ({M} by the text-level model)')
    for i, (lo, hi) in enumerate(idx):
        # every fragment holds a measure of its own (the first by assumption, the others start with a barline line)
        # (kernpy reports the first fragment as starting at 0, which its exporter reads as "from the start")
        check((0 if i == 0 else 1) <= lo <= hi, f'pair {i} = {(lo, hi)} of {idx} does not address a measure range; fragments {texts}')
        try:
            out = kp.dumps(doc, from_measure=lo, to_measure=hi)
        except Exception as e:
            check(False, f'pair {i} = {(lo, hi)} of {idx} cannot be exported: {type(e).__name__}: {e}; fragments {texts}')
        got = rm.data_lines(rm.parse(out))
        exp = [ln.cells for ln in groups[i] if ln.kind == 'data']
        check(got == exp, f'pair {i} = {(lo, hi)} of {idx} exports data lines {got}, fragment {i} has {exp}; fragments {texts}')
        out2 = kp.export(doc, kp.ExportOptions(from_measure=lo, to_measure=hi))
        check(out2 == out, f'pair {i} = {(lo, hi)} through ExportOptions + export gives {out2!r}, through dumps {out!r}')
        # the same pair asked again (same route, same document) answers the same, every time
        for n in (2, 3):
            rep = kp.dumps(doc, from_measure=lo, to_measure=hi)
            check(rep == out, f'pair {i} = {(lo, hi)} exported for the {n}th time from the same document gives {rep!r}, the first time {out!r}')
    return True


# ------------------------------------------------------------------ C19.b index bookkeeping for ARBITRARY measure counts (stubbed prefix import)
class _StubDoc:
    def __init__(self, m):
        self.m = m

    def measures_count(self):
        return self.m


def ob_b(k: int, m1: int, m2: int, m3: int, m4: int, m5: int, m6: int, sep: int) -> bool:
    """Generic.concat's own arithmetic, with the prefix import replaced by a stub whose measure counts are SYMBOLIC integers
    (any non-decreasing sequence): one pair per fragment, the first starts at 0, each next one right after the previous end, pair i
    ends at the measure count of prefix i, the document returned is the import of the whole text, and every prefix handed to the
    importer is the separator-joined text of the fragments so far."""
    from kernpy.core import generic as g
    assume(1 <= k <= 6 and 0 <= sep < 3)
    ms = [m1, m2, m3, m4, m5, m6]
    assume(1 <= m1)
    for i in range(5):
        assume(ms[i] <= ms[i + 1])
    kc = choose(k - 1, 6) + 1
    sepc = SEPS[choose(sep, 3)]
    eff = '\n' if sepc is None else sepc
    contents = ['**kern\n=1\n4c'] + ['=%d\n4d' % (i + 2) for i in range(kc - 1)]
    seen = []
    docs = [_StubDoc(ms[i]) for i in range(kc)]

    def stub_create(text, *a, **kw):
        seen.append(text)
        return docs[len(seen) - 1], []
    orig = g.create
    g.create = stub_create
    try:
        doc, idx = g.Generic.concat(contents) if sepc is None else g.Generic.concat(contents, separator=sepc)
    finally:
        g.create = orig
    if len(seen) == 0:
        from crosshair.util import IgnoreAttempt
        raise IgnoreAttempt('stub not reached')          # concat no longer imports through kernpy.core.generic.create: inconclusive, never an alarm
    check(len(idx) == kc, lambda: f'{len(idx)} pairs for {kc} fragments')
    check(len(seen) == kc, lambda: f'{len(seen)} prefix imports for {kc} fragments')
    check(doc is docs[kc - 1], 'the document returned is not the import of the complete text')
    check(idx[0][0] == 0, lambda: f'first pair starts at {idx[0][0]}')
    for i in range(kc):
        check(idx[i][1] == ms[i], lambda: f'pair {i} ends at {idx[i][1]}, the text up to fragment {i} has {ms[i]} measures')
        if i:
            check(idx[i][0] == idx[i - 1][1] + 1, lambda: f'pair {i} starts at {idx[i][0]}, the previous one ends at {idx[i - 1][1]}')
        # the prefix handed to the importer holds the fragments so far, joined by the separator, in order
        check(seen[i].lstrip('\n') == eff.join(contents[:i + 1]), lambda: f'prefix {i} handed to the importer is {seen[i]!r}, expected {eff.join(contents[:i + 1])!r}')
    return True


def fn_b_native(k, m1, m2, m3, m4, m5, m6, sep):
    return ob_b(k, m1, m2, m3, m4, m5, m6, sep)


def _desc(shape, mask, sep):
    sc, groups, nb = fragments(SHAPES[shape], mask)
    return {'shape': list(SHAPES[shape]), 'fragments': ['\n'.join('\t'.join(ln.cells) for ln in g) for g in groups], 'separator': repr(SEPS[sep])}


OBLIGATIONS = [
    Ob(id='C19.a', fn=ob_a, title='concat == loads(joined); one consecutive pair per fragment; pair i exports fragment i\'s data lines',
       shard_of=lambda shape, mask, sep: shape, shards={'quick': 16, 'thorough': 16}, budget_s={'quick': 170, 'thorough': 2400},
       witnesses=[{'shape': 3, 'mask': 0, 'sep': 0}], min_confirmed=500,
       symbolic='-', enumerated='score shape, cut mask over the barline lines (all subsets), separator',
       bounds={'quick': 'C07 quick shapes (1-2 kern spines, M<=3) x every cut set (<= 6 fragments) x {newline, empty, default}',
               'thorough': 'M<=4 x every cut set x 3 separators'},
       describe=_desc),
    Ob(id='C19.b', fn=ob_b, title='index bookkeeping of Generic.concat for arbitrary measure counts (prefix import stubbed): one pair per fragment, consecutive, ending at the prefix\'s measure count',
       budget_s={'quick': 120, 'thorough': 600}, stub_optional=True,
       stubs=['kernpy.core.generic.create replaced by a stub returning documents with symbolic measure counts (C19.b); contract asserted on every path: one call per prefix, with the separator-joined text'],
       witnesses=[{'k': 3, 'm1': 1, 'm2': 1, 'm3': 4, 'm4': 4, 'm5': 4, 'm6': 4, 'sep': 0}], min_confirmed=12,
       symbolic='measure counts of the six prefixes: unbounded integers, any non-decreasing sequence', enumerated='number of fragments (1..6), separator (3)',
       bounds={'quick': '1..6 fragments x 3 separators x every non-decreasing sequence of measure counts in Z (m1 >= 1)', 'thorough': 'same'}),
]
