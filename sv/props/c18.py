"""C18  Every spine type imports every token without loss.

Anchors: createImporter (importer_factory.py); import_token of Text/Dynam/Dyn/Harm/Mxhm/Fing/Basic
SpineImporter (ACCEPTED_CATEGORIES test).  Oracle: the documented category tree (README).
"""
from sv.engine import ctx
from sv.engine.ob import Ob
from sv.engine.xh import assume, check, choose, concrete, native
from sv.ref import alphabets as al
from sv.ref import cats as refcats

import kernpy as kp
from kernpy.core import tokens as tk
from kernpy.core import kern_spine_importer as ksi
from kernpy.core.tokens import TokenCategory as TC

CATS = list(TC)
N = len(CATS)
_entries, DOC_SRC = refcats.documented()
TREE = refcats.Model(_entries)
SHARED_ROOTS = ('STRUCTURAL', 'SIGNATURES', 'EMPTY', 'BARLINES', 'IMAGE_ANNOTATIONS', 'COMMENTS')
SHARED = set()
for _r in SHARED_ROOTS:
    SHARED.update(TREE.closure(_r))

# header -> (importer class name, own category)
TABLE = {'**text': ('TextSpineImporter', 'LYRICS'), '**dynam': ('DynamSpineImporter', 'DYNAMICS'), '**dyn': ('DynSpineImporter', 'DYNAMICS'),
         '**harm': ('HarmSpineImporter', 'HARMONY'), '**mxhm': ('MxhmSpineImporter', 'HARMONY'), '**fing': ('FingSpineImporter', 'FINGERING')}
KINDS = ('**text', '**dynam', '**dyn', '**harm', '**mxhm', '**fing', '**foo')
OTHER_TABLE = {'**kern': 'KernSpineImporter', '**root': 'RootSpineImporter'}

META = {
    'outside': ['**mens (createImporter raises NotImplementedError by design)', 'the empty cell (import_token(\'\') raises by contract)',
                'cell texts outside the corpus in the real-parser tier (the stub tier covers arbitrary text given any parse outcome)'],
    'assumptions': ['shared structure = the documented closure of STRUCTURAL, SIGNATURES, EMPTY, BARLINES, IMAGE_ANNOTATIONS, COMMENTS'],
}


def setup(tier):
    T = al.classify_tandem()
    return {'alphabets': {'tandem': T}, 'alphabet_sizes': {'tandem': len(T)}}


# ------------------------------------------------------------------ C18.a dispatch
def ob_a(h: str) -> bool:
    """createImporter on an arbitrary header string."""
    assume(len(h) <= ctx.pick(7, 9))
    try:
        imp = kp.createImporter(h)
    except NotImplementedError:
        check(h == '**mens', lambda: f'createImporter({concrete(h)!r}) raised NotImplementedError')
        return True
    name = type(imp).__name__
    if h in TABLE:
        check(name == TABLE[h][0], lambda: f'createImporter({concrete(h)!r}) -> {name}')
    elif h in OTHER_TABLE:
        check(name == OTHER_TABLE[h], lambda: f'createImporter({concrete(h)!r}) -> {name}')
    else:
        check(h != '**mens', 'mens')
        check(name == 'BasicSpineImporter', lambda: f'unknown header {concrete(h)!r} -> {name}, expected BasicSpineImporter')
    return True


# ------------------------------------------------------------------ C18.a2 import rule, stubbed kern parse, symbolic text
SCRIPT = {'raise': False, 'token': None, 'calls': 0}
_orig_import_token = ksi.KernSpineImporter.import_token


def _stub_import_token(self, encoding):
    """StubKernParse: any outcome for any text (over-approximates the parser)."""
    SCRIPT['calls'] += 1
    if SCRIPT['raise']:
        raise Exception('stub: parse error')
    return SCRIPT['token']


def ob_a2(kind: int, cat: int, fails: bool, text: str) -> bool:
    assume(0 <= kind < len(KINDS))
    assume(0 <= cat < N)
    assume(1 <= len(text) <= ctx.pick(5, 8))
    k = choose(kind, len(KINDS))
    ci = choose(cat, N)
    if fails:
        assume(ci == 0)                   # the category is irrelevant when the parse fails
    header = KINDS[k]
    own = TABLE[header][1] if header in TABLE else 'OTHER'
    parsed = tk.SimpleToken('PARSED:' + text, CATS[ci])
    SCRIPT['raise'], SCRIPT['token'], SCRIPT['calls'] = bool(fails), parsed, 0
    ksi.KernSpineImporter.import_token = _stub_import_token
    try:
        imp = kp.createImporter(header)
        try:
            got = imp.import_token(text)
        except Exception as e:
            check(False, lambda: f'{header}: import_token({concrete(text)!r}) raised {type(e).__name__} (parse {"failed" if fails else "gave " + CATS[ci].name})')
    finally:
        ksi.KernSpineImporter.import_token = _orig_import_token
    assume(SCRIPT['calls'] > 0)          # the importer did not go through the patched parse: stub contract broken, path discarded
    if not fails and CATS[ci].name in SHARED:
        check(got is parsed, lambda: f'{header}: a parsed {CATS[ci].name} token was not kept (got {type(got).__name__} {concrete(got.encoding)!r} {got.category.name})')
    elif not fails and CATS[ci].name == own and got is parsed:
        pass                              # a parsed token that already carries the spine's own category
    else:
        check(got.encoding == text and got.export() == text,
              lambda: f'{header}: cell {concrete(text)!r} became a token with text {concrete(got.encoding)!r}')
        check(got.category.name == own, lambda: f'{header}: cell {concrete(text)!r} got category {got.category.name}, expected {own}')
    return True


# ------------------------------------------------------------------ C18.b real parser corpus
EXTRA = ['4c', '8.dd#L', '2r', '4c 4e', '16qqE-J', '=1', '==', '=2||', '=:|!|:', '=-', '.', '*', 'la', 'Ky-ri-e', 'f', 'pp', 'C7', 'I6/4', '1', '1-2',
         'zig zag', '4zz', 'c4', '[[[', 'é', '!fc', '12', '%', 'a·b', '\\', 'x' * 20, ' =||',
         'r[', '4rL', 'rs', '4rt', '-rym', '*xywh-1:1,,3,4', '*xywh-1:1,2,3', '*xywh-1', 'G/B', 'Am', '4c 4', 'r', 'rr', ']', '=||x',
         # long cells: shared tokens of more than 32 / 64 characters, long free text, long notes
         '*xywh-123:10240,20480,15360,12000', '*xywh-scan_0012.jpg:102,204,1536,1200', '*xywh-' + '9' * 40 + ':1,2,3,4', '=' + '1' * 40,
         '*M2/4+3/8+2/4+3/8+2/4+3/8+2/4+3/8', '*k[f#c#g#d#a#e#b#f##c##g##d##a##e##b##]', 'w' * 70, 'Ky-ri-e e-le-i-son, Chri-ste e-le-i-son', '4' + 'c' * 40,
         '16' + '.' * 35 + 'c', "4cc#LLLLLLLLLLLLLLLLLLLLLLLLLLLLLLLLLL"]


@native
def _corpus():
    ts = sorted(t for t in ctx.DATA['alphabets']['tandem'] if t not in ('*', '.'))
    return ts + EXTRA


_C = []


def ob_b(k: int, kind: int) -> bool:
    global _C
    if not _C:
        _C = _corpus()
    assume(0 <= k < len(_C) and 0 <= kind < len(KINDS))
    return _b_body(choose(k, len(_C)), choose(kind, len(KINDS)))


@native
def _b_body(k, kind):
    text, header = _C[k], KINDS[kind]
    own = TABLE[header][1] if header in TABLE else 'OTHER'
    try:
        ref = kp.KernSpineImporter().import_token(text)
    except Exception:
        ref = None
    try:
        got = kp.createImporter(header).import_token(text)
    except Exception as e:
        check(False, f'{header}: import_token({text!r}) raised {type(e).__name__}: {e}')
    if ref is not None and ref.category.name in SHARED:
        check(type(got) is type(ref) and got.category == ref.category and got.encoding == ref.encoding and got.export() == ref.export()
              and getattr(got, 'hidden', None) == getattr(ref, 'hidden', None),
              f'{header}: {text!r} is {type(ref).__name__}/{ref.category.name}/{ref.export()!r} under **kern but {type(got).__name__}/{got.category.name}/{got.export()!r} here')
    elif ref is not None and ref.category.name == own and got.category.name == own:
        check(got.export() == ref.export() or got.export() == text, 'own-category token altered')
    else:
        check(got.encoding == text and got.export() == text, f'{header}: cell {text!r} became a token with text {got.encoding!r} / export {got.export()!r}')
        check(got.category.name == own, f'{header}: cell {text!r} got category {got.category.name}, expected {own}')
    return True


# ------------------------------------------------------------------ C18.c documents: same rows under different spine types -> same measure index
ROWSETS = (['*clefG2', '=1', 'X1', 'X2', '=2', 'X3', '==', '*-'], ['X1', '=1', 'X2', '=2-', '.', '=3', 'X3', '*-'],
           ['*M4/4', 'X1', 'X2', '=', 'X3', '=:|!|:', 'X4', '==', '*-'], ['*', '*staff1', '=1', '.', '=2', 'X1', '*-'])
FILL = {'**kern': ['4c', '4d', '4e', '4f'], '**text': ['la', 'li', 'lu', 'le'], '**dynam': ['f', 'p', 'mf', 'pp'], '**dyn': ['f', 'p', 'mf', 'pp'],
        '**harm': ['C', 'G7', 'F', 'C'], '**mxhm': ['C major', 'G dominant', 'F major', 'C major'], '**fing': ['1', '2', '3', '4'], '**foo': ['zig', 'zag', 'zog', 'zug']}


def ob_c(r: int, kind: int, alone: bool) -> bool:
    assume(0 <= r < len(ROWSETS) and 0 <= kind < len(KINDS))
    return _c_body(choose(r, len(ROWSETS)), choose(kind, len(KINDS)), bool(alone))


@native
def _c_body(r, kind, alone):
    header = KINDS[kind]

    def col(h):
        out, k = [h], 0
        for c in ROWSETS[r]:
            if c.startswith('X'):
                out.append(FILL[h][k % 4])
                k += 1
            else:
                out.append(c)
        return out
    ref_doc, ref_errs = kp.loads('\n'.join(col('**kern')) + '\n')
    cols = [col(header)] if alone else [col(header), col('**kern')]
    text = '\n'.join('\t'.join(c[i] for c in cols) for i in range(len(cols[0]))) + '\n'
    doc, errs = kp.loads(text)
    check(not errs, f'import errors {[str(e) for e in errs]} on {text!r}')
    def bar_stages(d):
        return [i for i, st in enumerate(d.tree.stages) if st and all(isinstance(n.token, tk.BarToken) for n in st)]
    check(bar_stages(doc) == bar_stages(ref_doc), f'barline lines under {header}: {bar_stages(doc)}, under **kern: {bar_stages(ref_doc)}; text {text!r}')
    check(all(b in doc.measure_start_tree_stages for b in bar_stages(doc)), f'a barline under {header} does not open a measure: {doc.measure_start_tree_stages}')
    if not alone:
        # next to a **kern spine the whole measure index is that of the **kern spine (a pickup note also opens a measure)
        check(doc.measure_start_tree_stages == ref_doc.measure_start_tree_stages,
              f'measure index under {header} + **kern: {doc.measure_start_tree_stages}, under **kern alone: {ref_doc.measure_start_tree_stages}; text {text!r}')
    return True


# ------------------------------------------------------------------ C18.d document level: every cell of a non-kern spine becomes exactly one token
# blank-only / padded cells, and texts that any Unicode 'clean-up' would change: a decomposed accent (not NFC), the ANGSTROM SIGN
# (NFC maps it to another code point), a full-width letter (NFKC), sharp s and dotted capital I (case mappings change the length)
ODD_CELLS = (' ', '   ', '\xa0', '\u3000', ' x ', 'la', '-', '0', 'e\u0301', '\u212b', '\uff21', '\xdf\u0130')


def ob_d(kind: int, c1: int, c2: int, two: bool) -> bool:
    assume(0 <= kind < len(KINDS) and 0 <= c1 < len(ODD_CELLS) and 0 <= c2 < len(ODD_CELLS))
    return _d_body(choose(kind, len(KINDS)), choose(c1, len(ODD_CELLS)), choose(c2, len(ODD_CELLS)), bool(two))


@native
def _d_body(kind, c1, c2, two):
    header = KINDS[kind]
    own = TABLE[header][1] if header in TABLE else 'OTHER'
    heads = [header, header] if two else [header]
    rows = [heads, [ODD_CELLS[c1]] * len(heads), ['=1'] * len(heads), [ODD_CELLS[c2]] + [ODD_CELLS[c1]] * (len(heads) - 1), ['*-'] * len(heads)]
    text = '\n'.join('\t'.join(r) for r in rows) + '\n'
    doc, errs = kp.loads(text)
    check(not errs, f'import errors on {text!r}')
    check(len(doc.tree.stages) - 1 == len(rows), f'{len(doc.tree.stages) - 1} stages for {len(rows)} lines of {text!r} (a line of cells was dropped)')
    for r in (1, 3):
        for j, cell in enumerate(rows[r]):
            t = doc.tree.stages[r + 1][j].token
            if cell in ('-',) and False:
                continue
            ref = None
            try:
                ref = kp.KernSpineImporter().import_token(cell)
            except Exception:
                pass
            if ref is not None and ref.category.name in SHARED:
                continue
            check(t.encoding == cell and t.category.name == own, f'{header}: cell {cell!r} became {type(t).__name__} {t.encoding!r} {t.category.name}')
            check(t.export() == cell, f'{header}: cell {cell!r} is exported as {t.export()!r}')
    out = kp.dumps(doc, spine_types=[header])
    got = [ln.split('\t') for ln in out.split('\n') if ln != '']
    for r in (1, 3):
        if not all(c.strip() in ('', '.', '*') for c in rows[r]):
            check(rows[r] in got, f'{header}: line {rows[r]} of {text!r} is not in the export {out!r}')
    return True


# ------------------------------------------------------------------ C18.e bounding boxes under every spine type, imported twice
BOX_ROWS = ['*xywh-1:10,20,100,50', 'X1', '*xywh-1:10,400,100,50', 'X2', '=1', '*xywh-2:5,5,50,50', 'X3', '*-']


def ob_e(kind: int, lead: bool) -> bool:
    assume(0 <= kind < len(KINDS))
    return _e_body(choose(kind, len(KINDS)), bool(lead))


@native
def _e_body(kind, lead):
    from sv.ref.snap import snap, diff
    header = KINDS[kind]

    def col(h, rows=BOX_ROWS):
        out, k = [h], 0
        for c in rows:
            if c.startswith('X'):
                out.append(FILL[h][k % 4])
                k += 1
            else:
                out.append(c)
        return out

    def texts(rows):
        cols = [col(header, rows), col('**kern', rows)] if lead else [col('**kern', rows), col(header, rows)]
        t = '\n'.join('\t'.join(c[i] for c in cols) for i in range(len(cols[0]))) + '\n'
        r = '\n'.join('\t'.join(c[i] for c in [col('**kern', rows), col('**kern', rows)]) for i in range(len(cols[0]))) + '\n'
        return t, r
    text, ref_text = texts(BOX_ROWS)
    # a later document in which the same box cells come in another order (each cell keeps ITS OWN geometry)
    swapped = [BOX_ROWS[2], BOX_ROWS[1], 'X0', '*xywh-1:300,300,10,10', BOX_ROWS[0]] + BOX_ROWS[3:]
    text3, ref_text3 = texts(swapped)

    def boxes(d):
        toks = [(n.token.encoding, (n.token.bounding_box.from_x, n.token.bounding_box.from_y, n.token.bounding_box.to_x, n.token.bounding_box.to_y))
                for st in d.tree.stages for n in st if isinstance(n.token, tk.BoundingBoxToken)]
        pages = sorted((str(k), (v.from_measure, v.to_measure, (v.bounding_box.from_x, v.bounding_box.from_y, v.bounding_box.to_x, v.bounding_box.to_y)))
                       for k, v in d.page_bounding_boxes.items())
        return toks, pages
    d1, e1 = kp.loads(text)
    b1 = boxes(d1)
    d2, e2 = kp.loads(text)
    b2 = boxes(d2)
    ref = boxes(kp.loads(ref_text)[0])
    check(not e1 and not e2, 'import errors')
    check(diff(snap(d1), snap(d2)) == '' and b1[1] == b2[1], f'two imports of the same text under {header} differ: {b1} vs {b2}')
    check(b2[1] == ref[1], f'page boxes under {header}: {b2[1]}, the same rows under **kern: {ref[1]}')
    check(sorted(set(b2[0])) == sorted(set(ref[0])), f'box tokens under {header}: {sorted(set(b2[0]))}, under **kern {sorted(set(ref[0]))}')
    d3, e3 = kp.loads(text3)
    b3 = boxes(d3)
    ref3 = boxes(kp.loads(ref_text3)[0])
    check(not e3 and b3[1] == ref3[1] and sorted(set(b3[0])) == sorted(set(ref3[0])),
          f'a later document with the same box cells in another order under {header}: {b3}, the same rows under **kern: {ref3}')
    return True


# ------------------------------------------------------------------ C18.f histories on one importer object per spine type
H_POOL = ('r[', 'rL', '4rt', 'C', 'G', 'Am', '4e', 'G/B', '=1', '.', '4c 4', '*clefG2', 'la', '[[[')


def ob_f(kind: int, h0: int, h1: int, h2: int) -> bool:
    n = len(H_POOL)
    assume(0 <= kind < len(KINDS) and 0 <= h0 < n and 0 <= h1 < n and 0 <= h2 < n)
    return _f_body(choose(kind, len(KINDS)), [choose(h0, n), choose(h1, n), choose(h2, n)])


@native
def _f_body(kind, hist):
    header = KINDS[kind]
    imp = kp.createImporter(header)

    def outcome(importer, text):
        try:
            t = importer.import_token(text)
            return ('ok', type(t).__name__, t.category.name, t.encoding, t.export())
        except Exception as e:
            return ('raises', type(e).__name__)
    for step, i in enumerate(hist):
        text = H_POOL[i]
        got = outcome(imp, text)
        exp = outcome(kp.createImporter(header), text)
        check(got[0] == 'ok', f'{header}: import_token({text!r}) after {[H_POOL[j] for j in hist[:step]]} raised {got}')
        check(got == exp, f'{header}: history {[H_POOL[j] for j in hist[:step + 1]]}: {text!r} -> {got}, on a fresh importer {exp}')
    return True


OBLIGATIONS = [
    Ob(id='C18.f', fn=ob_f, title='histories of three cells on ONE importer object per spine type: every outcome as on a fresh importer, never an exception',
       shard_of=lambda kind, h0, h1, h2: h0, shards={'quick': 14, 'thorough': 14}, budget_s={'quick': 150, 'thorough': 900},
       witnesses=[{'kind': 3, 'h0': 0, 'h1': 3, 'h2': 7}], min_confirmed=5000, enumerated='spine type (7), three cells from a 14-cell pool',
       bounds={'quick': '7 x 14^3 histories', 'thorough': 'same'}),
    Ob(id='C18.d', fn=ob_d, title='documents: every cell of a non-kern spine (blank-only, padded, odd) becomes exactly one verbatim token',
       shard_of=lambda kind, c1, c2, two: kind, shards={'quick': 7, 'thorough': 7}, budget_s={'quick': 120, 'thorough': 600},
       witnesses=[{'kind': 0, 'c1': 0, 'c2': 5, 'two': False}], min_confirmed=300, enumerated='spine type, two cells from 12 odd texts (blank-only, padded, non-NFC, full-width, case-sensitive), one / two columns',
       bounds={'quick': '7 x 8 x 8 x 2', 'thorough': 'same'}),
    Ob(id='C18.e', fn=ob_e, title='bounding-box interpretations under every spine type: same page boxes as under **kern, stable over repeated imports',
       budget_s={'quick': 120, 'thorough': 600}, witnesses=[{'kind': 1, 'lead': True}], min_confirmed=10, enumerated='spine type, leading / trailing column',
       bounds={'quick': '7 x 2 documents with three box rows on two pages, each imported twice', 'thorough': 'same'}),
    Ob(id='C18.a', fn=ob_a, title='createImporter dispatch on an arbitrary header string',
       budget_s={'quick': 120, 'thorough': 600}, witnesses=[{'h': '**text'}, {'h': '**zzz'}], min_confirmed=8,
       symbolic='header string', bounds={'quick': 'header <= 7 chars', 'thorough': 'header <= 9 chars'}),
    Ob(id='C18.a2', fn=ob_a2, title='import rule of the seven non-kern importers for ANY parse outcome and ANY cell text (stubbed kern parse)',
       shard_of=lambda kind, cat, fails, text: kind, shards={'quick': 7, 'thorough': 7}, budget_s={'quick': 170, 'thorough': 1200},
       witnesses=[{'kind': 0, 'cat': 22, 'fails': False, 'text': '=1'}, {'kind': 4, 'cat': 0, 'fails': True, 'text': 'C maj'}], min_confirmed=250,
       symbolic='cell text (arbitrary string), parse-fails flag', enumerated='importer kind, parsed category index (all 37)',
       stub_optional=True, stubs=['StubKernParse: KernSpineImporter.import_token replaced by "raise, or return a token of the selected category" (over-approximates the parser)'],
       bounds={'quick': 'text 1..5 chars', 'thorough': 'text 1..8 chars'}),
    Ob(id='C18.b', fn=ob_b, title='real parser: corpus tokens under every spine type vs under **kern',
       shard_of=lambda k, kind: k, shards={'quick': 8, 'thorough': 8}, budget_s={'quick': 150, 'thorough': 900},
       witnesses=[{'k': 0, 'kind': 0}], min_confirmed=500, enumerated='corpus index, importer kind',
       bounds={'quick': 'every tandem interpretation the parser accepts from the candidate list + 32 note/barline/free-text/garbage cells x 7 spine types', 'thorough': 'same'}),
    Ob(id='C18.c', fn=ob_c, title='documents presenting the same rows under each spine type give the same measure index',
       budget_s={'quick': 120, 'thorough': 600}, witnesses=[{'r': 0, 'kind': 0, 'alone': True}], min_confirmed=50,
       enumerated='row set, spine type, alone / next to a **kern spine', bounds={'quick': '4 row sets x 7 types x 2', 'thorough': 'same'}),
]
