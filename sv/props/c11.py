"""C11  Category algebra follows the documented tree.

Anchors: TokenCategoryHierarchyMapper.hierarchy, is_child/_is_child, children,
nodes/_find_subtree, leaves, all, valid, match/_match, _validate_* (kernpy/core/tokens.py).
Oracle: the tree printed in /repo/README.md (sv/ref/cats.py), never kernpy's literal.
"""
import random

import z3

from sv.engine import ctx, pz
from sv.engine.ob import Ob
from sv.engine.xh import assume, check, choose, native
from sv.ref import cats as refcats

import kernpy as kp
from kernpy.core.tokens import TokenCategory as TC, TokenCategoryHierarchyMapper as M

CATS = list(TC)
N = len(CATS)
NAMES = [c.name for c in CATS]
_entries, DOC_SRC = refcats.documented()
DOC = refcats.Model(_entries)

META = {
    'outside': ['the string rendering of tree() beyond one line per category', 'include/exclude containers other than list, tuple, set, single value, None'],
    'assumptions': ['"the documented tree" is the tree printed in README.md (parsed at run time: %s)' % DOC_SRC],
}


def _names(s):
    return sorted(c.name for c in s)


def _walk(tree, parent=None):
    for k, sub in tree.items():
        yield k, parent
        yield from _walk(sub, k)


# ------------------------------------------------------------------ C11.a forest == documented tree
def ob_a(a: int) -> bool:
    assume(0 <= a < N)
    c = CATS[a]
    occ = [(k, p) for k, p in _walk(M.hierarchy) if k == c]
    check(len(occ) == 1, f'{c.name} occurs {len(occ)} times in the hierarchy')
    check(c.name in DOC.parent, f'{c.name} is not in the documented tree')
    got_parent = occ[0][1].name if occ[0][1] is not None else None
    check(got_parent == DOC.parent[c.name], f'parent of {c.name}: hierarchy {got_parent}, documented {DOC.parent[c.name]}')
    check(len(DOC.order) == N and set(DOC.order) == set(NAMES), 'documented tree and enum differ in members')
    check(_names(TC.all()) == sorted(NAMES) and _names(M.all()) == sorted(NAMES), 'all() is not the 37 members')
    lines = TC.tree().split('\n')
    check(sum(1 for ln in lines if ln.endswith(' ' + c.name) or ln.endswith('.' + c.name)) == 1,
          f'tree() does not print {c.name} exactly once')
    return True


# ------------------------------------------------------------------ C11.b queries against the documented tree
def ob_b(a: int, b: int) -> bool:
    assume(0 <= a < N)
    assume(0 <= b < N)
    return _b_body(choose(a, N), choose(b, N))


@native
def _b_body(a, b):
    ca, cb = CATS[a], CATS[b]
    exp = cb.name in DOC.ancestors_or_self(ca.name)
    got = TC.is_child(child=ca, parent=cb)
    check(bool(got) == exp, f'is_child(child={ca.name}, parent={cb.name}) = {got}, documented tree says {exp}')
    got2 = M.is_child(parent=cb, child=ca)
    check(bool(got2) == exp, f'Mapper.is_child(parent={cb.name}, child={ca.name}) = {got2}, expected {exp}')
    return True


def ob_b2(a: int) -> bool:
    assume(0 <= a < N)
    c = CATS[a]
    check(_names(TC.children(c)) == sorted(DOC.kids[c.name]), f'children({c.name}) = {_names(TC.children(c))}')
    check(_names(TC.nodes(c)) == sorted(DOC.descendants(c.name)), f'nodes({c.name}) = {_names(TC.nodes(c))}')
    check(_names(TC.leaves(c)) == sorted(DOC.leaves(c.name)), f'leaves({c.name}) = {_names(TC.leaves(c))}')
    return True


# ------------------------------------------------------------------ model of the selection
def model_valid(inc, exc):
    """inc/exc: iterables of names or None."""
    I = set(NAMES) if inc is None else set(inc)
    X = set() if exc is None else set(exc)
    sel = set()
    for n in I:
        sel.update(DOC.closure(n))
    for n in X:
        sel.difference_update(DOC.closure(n))
    return sel


def model_match(c, inc, exc):
    return bool(set(DOC.closure(c)) & model_valid(inc, exc))


SHAPES = ('list', 'tuple', 'set', 'single', 'none')


def shape(kind, members):
    if kind == 'list':
        return list(members)
    if kind == 'tuple':
        return tuple(members)
    if kind == 'set':
        return set(members)
    if kind == 'single':
        return members[0]
    return None


def _members(i, j):
    """Two index slots, -1 = absent -> list of categories (symbolic indices fork by table lookup)."""
    out = []
    if i >= 0:
        out.append(CATS[i])
    if j >= 0:
        out.append(CATS[j])
    return out


# ------------------------------------------------------------------ C11.d argument shapes (E1)
def ob_d(i: int, j: int, k: int, side: bool) -> bool:
    """valid()/match() with include (side=True) or exclude (side=False) given in every argument
    shape; i, j: member indices (-1 absent); k: shape selector."""
    nq = N
    assume(-1 <= i < N)
    assume(-1 <= j < nq)
    assume(0 <= k < 5)
    assume(not (k == 3 and (i < 0) == (j < 0)))      # single: exactly one member
    assume(not (k == 4 and (i >= 0 or j >= 0)))      # None: no member
    return _d_body(choose(i + 1, N + 1) - 1, choose(j + 1, nq + 1) - 1, choose(k, 5), bool(side))


@native
def _d_body(i, j, k, side):
    kind = SHAPES[k]
    mem = _members(i, j)
    arg = shape(kind, mem)
    names = None if kind == 'none' else [c.name for c in mem]
    if side:
        got = TC.valid(include=arg)
        exp = model_valid(names, None)
    else:
        got = TC.valid(exclude=arg)
        exp = model_valid(None, names)
    check(set(_names(got)) == exp, f'valid({"include" if side else "exclude"}={arg!r}) = {_names(got)}, expected {sorted(exp)}')
    return True


def ob_e(a: int, b: int, c: int, k: int) -> bool:
    """match(c, include=<a>, exclude=<b>) and valid() for single categories in every shape."""
    nq = ctx.pick(16, N)
    assume(0 <= a < N)
    assume(-1 <= b < N)
    assume(0 <= c < nq)
    nk = ctx.pick(1, 4)
    assume(0 <= k < nk)
    return _e_body(choose(a, N), choose(b + 1, N + 1) - 1, choose(c, nq), choose(k, nk))


@native
def _e_body(a, b, c, k):
    kind = SHAPES[k]
    inc = shape(kind, [CATS[a]])
    exc = None if b < 0 else shape(kind, [CATS[b]])
    # quick: c ranges over the first nq members but a, b over all -> spread c deterministically
    cc = CATS[(c * 5 + a) % N] if not ctx.thorough() else CATS[c]
    got = TC.match(cc, include=inc, exclude=exc)
    exp = model_match(cc.name, [CATS[a].name], None if b < 0 else [CATS[b].name])
    check(bool(got) == exp, f'match({cc.name}, include={inc!r}, exclude={exc!r}) = {got}, expected {exp}')
    v = TC.valid(include=inc, exclude=exc)
    expv = model_valid([CATS[a].name], None if b < 0 else [CATS[b].name])
    check(set(_names(v)) == expv, f'valid(include={inc!r}, exclude={exc!r}) = {_names(v)}, expected {sorted(expv)}')
    if b >= 0:
        # the mirrored selection right afterwards (results must not depend on earlier calls)
        v2 = TC.valid(include=exc, exclude=inc)
        expv2 = model_valid([CATS[b].name], [CATS[a].name])
        check(set(_names(v2)) == expv2, f'valid(include={exc!r}, exclude={inc!r}) called after the mirrored selection = {_names(v2)}, expected {sorted(expv2)}')
        g2 = TC.match(cc, include=exc, exclude=inc)
        check(bool(g2) == model_match(cc.name, [CATS[b].name], [CATS[a].name]), f'match({cc.name}) after the mirrored selection = {g2}')
    return True


BAD = ('NOTE', 7, None, 3.5)


def ob_f(i: int, w: int, k: int, side: bool) -> bool:
    """A member that is not a TokenCategory is rejected with ValueError (never silently accepted)."""
    assume(0 <= i < N)
    assume(0 <= w < len(BAD))
    assume(0 <= k < 4)
    assume(not (k == 3 and w == 2))   # a bare None means "default"
    return _f_body(choose(i, N), choose(w, len(BAD)), choose(k, 4), bool(side))


@native
def _f_body(i, w, k, side):
    kind = SHAPES[k]
    bad = BAD[w]
    mem = [bad] if kind == 'single' else [CATS[i], bad]
    arg = shape(kind, mem)
    for call in ('valid', 'match'):
        try:
            if call == 'valid':
                r = TC.valid(include=arg) if side else TC.valid(exclude=arg)
            else:
                r = TC.match(CATS[i], include=arg) if side else TC.match(CATS[i], exclude=arg)
        except ValueError:
            continue
        check(False, f'{call}({"include" if side else "exclude"}={arg!r}) returned {r!r} instead of raising ValueError')
    return True


# ------------------------------------------------------------------ C11.c selection algebra for ALL sets (E2)
def _bits(names):
    v = 0
    for n in names:
        v |= 1 << NAMES.index(n)
    return v


def _doc_closure_term(x: pz.SetBV):
    acc = z3.BitVecVal(0, N)
    for i, n in enumerate(NAMES):
        acc = acc | z3.If(x.member(CATS[i]), z3.BitVecVal(_bits(DOC.closure(n)), N), z3.BitVecVal(0, N))
    return acc


def _translate_valid(inc, exc):
    env = {
        'cls': pz.ClassRecord(M, {
            '_validate_include': lambda x: x,    # identity on sets: the shapes are C11.d's (E1) job
            '_validate_exclude': lambda x: x,
            'nodes': lambda cat: pz.SetBV.of(M.nodes(cat), CATS),   # live: the real nodes() run per concrete category
            'leaves': lambda cat: pz.SetBV.of(M.leaves(cat), CATS),
            'children': lambda cat: pz.SetBV.of(M.children(cat), CATS),
            'all': lambda: pz.SetBV.of(M.all(), CATS),
            'hierarchy': M.hierarchy,
        }),
        'include': inc, 'exclude': exc,
    }
    return pz.translate(M.valid, env, universe=CATS)


def _translate_match(cat, inc, exc):
    env = {
        'cls': pz.ClassRecord(M, {
            'nodes': lambda c: pz.SetBV.of(M.nodes(c), CATS),
            'leaves': lambda c: pz.SetBV.of(M.leaves(c), CATS),        # live tree queries on the concrete category: a _match written
            'children': lambda c: pz.SetBV.of(M.children(c), CATS),    # against any of them stays inside the translatable subset
            'all': lambda: pz.SetBV.of(M.all(), CATS),
            'valid': lambda include=None, exclude=None: _translate_valid(include, exclude),
        }),
        'category': cat, 'include': inc, 'exclude': exc,
    }
    return pz.translate(M._match, env, universe=CATS)


def fn_c(inc: list, exc: list, cat: str = '') -> bool:
    """Native replay form of C11.c: concrete include/exclude name lists (None = default)."""
    I = None if inc is None else {TC[n] for n in inc}
    X = None if exc is None else {TC[n] for n in exc}
    got = TC.valid(include=I, exclude=X)
    exp = model_valid(inc, exc)
    check(set(_names(got)) == exp, f'valid(include={inc}, exclude={exc}) = {_names(got)}, expected {sorted(exp)}')
    for c in ([cat] if cat else NAMES):
        g = TC.match(TC[c], include=I, exclude=X)
        e = model_match(c, inc, exc)
        check(bool(g) == e, f'match({c}, include={inc}, exclude={exc}) = {g}, expected {e}')
    return True


def _set_of(model, var):
    v = model.eval(var, model_completion=True).as_long()
    return [NAMES[i] for i in range(N) if v >> i & 1]


def run_c(tier):
    q = pz.Queries(tier)
    inc_v, exc_v = z3.BitVecs('include exclude', N)
    inc, exc = pz.SetBV(inc_v, CATS), pz.SetBV(exc_v, CATS)
    ALL = pz.SetBV.of(CATS, CATS)
    EMPTY = pz.SetBV.of([], CATS)
    cex = []
    cases = [('sets', inc, exc, lambda m: (_set_of(m, inc_v), _set_of(m, exc_v))),
             ('include=None', ALL, exc, lambda m: (None, _set_of(m, exc_v))),
             ('exclude=None', inc, EMPTY, lambda m: (_set_of(m, inc_v), None)),
             ('both None', ALL, EMPTY, lambda m: (None, None))]
    valid_terms = {}
    for label, i_t, x_t, dec in cases:
        try:
            valid = _translate_valid(i_t, x_t)
        except pz.Unsupported as e:
            q.unsupported(f'valid: {e}')
            continue
        valid_terms[label] = valid
        spec = _doc_closure_term(i_t) & ~_doc_closure_term(x_t)
        r, m = q.valid(f'valid[{label}] == closure(include) - closure(exclude), all 2^{N} x 2^{N} sets',
                       [], valid.t == spec, model_vars=[inc_v, exc_v])
        if r == 'sat':
            a, b = dec(m)
            cex.append({'args': {'inc': a, 'exc': b}, 'message': f'valid[{label}] differs from the closure algebra'})
    # match(c) <=> valid ∩ closure(c) != {} ; one query per category, sets symbolic
    for ci, c in enumerate(CATS):
        try:
            mt = _translate_match(c, inc, exc)
        except pz.Unsupported as e:
            q.unsupported(f'_match: {e}')
            break
        spec_valid = _doc_closure_term(inc) & ~_doc_closure_term(exc)
        spec = (spec_valid & z3.BitVecVal(_bits(DOC.closure(c.name)), N)) != z3.BitVecVal(0, N)
        r, m = q.valid(f'match({c.name}) <=> valid & closure({c.name}) != {{}}', [], mt == spec, model_vars=[inc_v, exc_v])
        if r == 'sat':
            cex.append({'args': {'inc': _set_of(m, inc_v), 'exc': _set_of(m, exc_v), 'cat': c.name},
                        'message': f'match({c.name}) differs from the closure algebra'})
    # translator validation: the translated term evaluated on concrete sets == the real function
    rnd = random.Random(ctx.SEED + 11)
    pts = [([], []), (NAMES, []), (['NOTE_REST'], ['REST']), (['CORE'], ['DURATION']), (['NOTE_REST'], ['NOTE'])]
    for _ in range(200):
        pts.append((rnd.sample(NAMES, rnd.randint(0, 6)), rnd.sample(NAMES, rnd.randint(0, 4))))
    bad = 0
    for a, b in (pts if 'sets' in valid_terms else []):
        t = z3.simplify(z3.substitute(valid_terms['sets'].t, (inc_v, z3.BitVecVal(_bits(a), N)), (exc_v, z3.BitVecVal(_bits(b), N))))
        real = M.valid(include={TC[n] for n in a}, exclude={TC[n] for n in b})
        if t.as_long() != _bits([c.name for c in real]):
            bad += 1
    res = q.result(functions=[pz.qualname(M.valid), pz.qualname(M._match)],
                   tables=['TokenCategoryHierarchyMapper.nodes() evaluated on the live hierarchy for each of the 37 members',
                           'documented closure table from ' + DOC_SRC],
                   validated_points=len(pts) - bad,
                   notes='_validate_include/_validate_exclude are the identity on well-typed sets in this encoding (their argument handling is C11.d/C11.f)')
    if bad:
        res['harness_error'] = f'translator validation failed on {bad} of {len(pts)} concrete points'
    res['cex'] = cex
    return res


# ------------------------------------------------------------------ C11.g the very first query of an interpreter
FIRST_KINDS = ('leaves', 'children', 'nodes', 'is_child', 'valid', 'match', 'all', 'tree')


def ob_g(kind: int, a: int) -> bool:
    """Each query as the FIRST call of a fresh interpreter (no earlier call may be needed to make it right)."""
    cats = (3, 5, 6, 14, 0, 23, 31, 8)       # CORE, NOTE_REST, NOTE, SIGNATURES, STRUCTURAL, COMMENTS, IMAGE_ANNOTATIONS, PITCH
    assume(0 <= kind < len(FIRST_KINDS) and 0 <= a < len(cats))
    return _g_body(choose(kind, len(FIRST_KINDS)), cats[choose(a, len(cats))])


@native
def _g_body(kind, a):
    import os
    import subprocess
    import sys
    k = FIRST_KINDS[kind]
    c = CATS[a]
    code = {
        'leaves': 'r = sorted(x.name for x in T.leaves(T[N]))',
        'children': 'r = sorted(x.name for x in T.children(T[N]))',
        'nodes': 'r = sorted(x.name for x in T.nodes(T[N]))',
        'is_child': 'r = [x.name for x in T if T.is_child(child=x, parent=T[N])]',
        'valid': 'r = sorted(x.name for x in T.valid(include=[T[N]]))',
        'match': 'r = [x.name for x in T if T.match(x, include=[T[N]])]',
        'all': 'r = sorted(x.name for x in T.all())',
        'tree': 'r = [ln.split(" ")[-1].split(".")[-1] for ln in T.tree().split(chr(10))[1:]]',
    }[k]
    env = dict(os.environ)
    root = os.path.dirname(os.path.dirname(os.path.abspath(kp.__file__)))
    env['PYTHONPATH'] = root + (os.pathsep + env['PYTHONPATH'] if env.get('PYTHONPATH') else '')
    pr = subprocess.run([sys.executable, '-c', f'import json\nfrom kernpy.core.tokens import TokenCategory as T\nN = {c.name!r}\n{code}\nprint(json.dumps(r))'],
                        env=env, capture_output=True, text=True, timeout=300)
    check(pr.returncode == 0, f'{k}({c.name}) as first call failed: {pr.stderr[-300:]}')
    import json
    got = json.loads(pr.stdout.strip().split('\n')[-1])
    exp = {
        'leaves': sorted(DOC.leaves(c.name)), 'children': sorted(DOC.kids[c.name]), 'nodes': sorted(DOC.descendants(c.name)),
        'is_child': [n for n in NAMES if c.name in DOC.ancestors_or_self(n)], 'valid': sorted(DOC.closure(c.name)),
        'match': [n for n in NAMES if set(DOC.closure(n)) & set(DOC.closure(c.name))], 'all': sorted(NAMES), 'tree': list(DOC.order),
    }[k]
    check(got == exp, f'{k}({c.name}) as the first call of a fresh interpreter = {got}, documented tree {exp}')
    return True


# ------------------------------------------------------------------ C11.h two-step histories from the first call of an interpreter
PRE_KINDS = ('valid(exclude=[N])', 'valid(include=[N])', 'match(N, exclude=[N])', 'valid(include=[P], exclude=[N])', 'nodes(N) then the result emptied',
             'valid(exclude=(N,))', 'children(N) then the result emptied', 'leaves(N) then the result emptied')
H_CATS = (3, 5, 6, 14, 0, 23, 31, 8, 7, 10)    # + DECORATION, DURATION


def ob_h(pre: int, a: int) -> bool:
    """What the FIRST call of an interpreter was (a selection that excludes / includes the category, a result set the caller
    then mutates) must not change any later tree query about that category, its parent or its children."""
    assume(0 <= pre < len(PRE_KINDS) and 0 <= a < len(H_CATS))
    return _h_body(choose(pre, len(PRE_KINDS)), H_CATS[choose(a, len(H_CATS))])


@native
def _h_body(pre, a):
    import json
    import os
    import subprocess
    import sys
    c = CATS[a]
    parent = DOC.parent.get(c.name) or c.name
    first = {
        0: 'T.valid(exclude=[T[N]])', 1: 'T.valid(include=[T[N]])', 2: 'T.match(T[N], exclude=[T[N]])', 3: 'T.valid(include=[T[P]], exclude=[T[N]])',
        4: 'T.nodes(T[N]).clear()', 5: 'T.valid(exclude=(T[N],))', 6: 'T.children(T[N]).clear()', 7: 'T.leaves(T[N]).clear()',
    }[pre]
    prog = f'''import json
from kernpy.core.tokens import TokenCategory as T
N = {c.name!r}
P = {parent!r}
{first}
out = {{}}
for X in sorted({{N, P}} | {{x.name for x in T.children(T[N])}}):
    out[X] = dict(
        leaves=sorted(x.name for x in T.leaves(T[X])), children=sorted(x.name for x in T.children(T[X])), nodes=sorted(x.name for x in T.nodes(T[X])),
        is_child=[x.name for x in T if T.is_child(child=x, parent=T[X])], valid_in=sorted(x.name for x in T.valid(include=[T[X]])),
        valid_ex=sorted(x.name for x in T.valid(exclude=[T[X]])), match=[x.name for x in T if T.match(x, include=[T[X]])],
        match_ex=[x.name for x in T if T.match(x, exclude=[T[X]])])
print(json.dumps(out))
'''
    env = dict(os.environ)
    root = os.path.dirname(os.path.dirname(os.path.abspath(kp.__file__)))
    env['PYTHONPATH'] = root + (os.pathsep + env['PYTHONPATH'] if env.get('PYTHONPATH') else '')
    pr = subprocess.run([sys.executable, '-c', prog], env=env, capture_output=True, text=True, timeout=300)
    check(pr.returncode == 0, f'queries after {PRE_KINDS[pre]} with N={c.name} failed: {pr.stderr[-300:]}')
    got = json.loads(pr.stdout.strip().split('\n')[-1])
    for X, g in got.items():
        exp = dict(
            leaves=sorted(DOC.leaves(X)), children=sorted(DOC.kids[X]), nodes=sorted(DOC.descendants(X)),
            is_child=[n for n in NAMES if X in DOC.ancestors_or_self(n)], valid_in=sorted(DOC.closure(X)),
            valid_ex=sorted(set(NAMES) - set(DOC.closure(X))), match=[n for n in NAMES if set(DOC.closure(n)) & set(DOC.closure(X))],
            match_ex=[n for n in NAMES if set(DOC.closure(n)) - set(DOC.closure(X))])
        for q in exp:
            check(g[q] == exp[q], f'after {PRE_KINDS[pre]} (N={c.name}) as the first call of an interpreter, {q}({X}) = {g[q]}, documented tree {exp[q]}')
    return True


# ------------------------------------------------------------------ C11.i sets of three categories; containers changed by the caller between calls
def ob_i(a: int, b: int, c: int) -> bool:
    assume(0 <= a < b)
    assume(b < c)
    assume(c < N)
    return _i_body(choose(a, N), choose(b, N), choose(c, N))


@native
def _i_body(a, b, c):
    """Every set of three categories on either side (nested members included: an ancestor next to its own descendant), as list /
    tuple / set in any member order; then the SAME container object changed in place by the caller and handed in again: every
    answer is the documented closure of what the container holds at the time of the call."""
    trio = [CATS[a], CATS[b], CATS[c]]
    names = [x.name for x in trio]
    k = (a + b + c) % 3
    for order in ((0, 1, 2), (2, 0, 1), (1, 2, 0))[:2 if not ctx.thorough() else 3]:
        mem = [trio[i] for i in order]
        inc = shape(SHAPES[k], mem)
        v = TC.valid(include=inc)
        check(set(_names(v)) == model_valid(names, None), lambda: f'valid(include={inc!r}) = {_names(v)}, documented closure {sorted(model_valid(names, None))}')
        v = TC.valid(exclude=inc)
        check(set(_names(v)) == model_valid(None, names), lambda: f'valid(exclude={inc!r}) = {_names(v)}, documented {sorted(model_valid(None, names))}')
        k = (k + 1) % 3
    # one of the three excluded again, the others included
    v = TC.valid(include=[trio[0], trio[2]], exclude={trio[1]})
    check(set(_names(v)) == model_valid([names[0], names[2]], [names[1]]), lambda: f'valid(include={[names[0], names[2]]}, exclude={{{names[1]}}}) = {_names(v)}')
    for t in (trio[0], trio[1], trio[2], CATS[(a + 5) % N], CATS[(c * 7 + 3) % N]):
        got = TC.match(t, include=set(trio))
        check(bool(got) == model_match(t.name, names, None), lambda: f'match({t.name}, include={names}) = {got}')
        got = TC.match(t, exclude=tuple(trio))
        check(bool(got) == model_match(t.name, None, names), lambda: f'match({t.name}, exclude={names}) = {got}')
    # the caller's own containers, changed in place between two calls (set and list)
    for mk in (set, list):
        box = mk([trio[0]])
        target = trio[1]
        first = TC.match(target, include=box)
        check(bool(first) == model_match(target.name, [names[0]], None), lambda: f'match({target.name}, include=[{names[0]}]) = {first}')
        if mk is set:
            box.discard(trio[0]); box.add(trio[2])
        else:
            box[0] = trio[2]
        second = TC.match(target, include=box)
        check(bool(second) == model_match(target.name, [names[2]], None),
              lambda: f'match({target.name}, include=<the same {mk.__name__} object, now holding {names[2]} instead of {names[0]}>) = {second}, documented {model_match(target.name, [names[2]], None)}')
        v = TC.valid(include=box)
        check(set(_names(v)) == model_valid([names[2]], None), lambda: f'valid(include=<container changed in place, now [{names[2]}]>) = {_names(v)}')
        xbox = mk([trio[2]])
        f1 = TC.match(target, exclude=xbox)
        if mk is set:
            xbox.clear(); xbox.add(trio[0])
        else:
            xbox[0] = trio[0]
        f2 = TC.match(target, exclude=xbox)
        check(bool(f1) == model_match(target.name, None, [names[2]]) and bool(f2) == model_match(target.name, None, [names[0]]),
              lambda: f'match({target.name}, exclude=<{mk.__name__} holding {names[2]}, then changed in place to {names[0]}>) = {f1}, {f2}')
    return True


# members are concrete once the selector has been consumed by table lookup: the real functions then run untraced
UNTRACE = [('kernpy.core.tokens', 'TokenCategoryHierarchyMapper.valid'), ('kernpy.core.tokens', 'TokenCategoryHierarchyMapper.match')]


def _shard2(a, b):
    return a + N * b


OBLIGATIONS = [
    Ob(id='C11.g', fn=ob_g, title='every query as the FIRST call of a fresh interpreter',
       native_body=True,
       shard_of=lambda kind, a: kind, shards={'quick': 8, 'thorough': 8}, budget_s={'quick': 150, 'thorough': 600},
       witnesses=[{'kind': 0, 'a': 0}], min_confirmed=60, enumerated='query kind (8), category (8 inner / leaf categories)',
       realized_at=['fresh python interpreter per call (subprocess)'], bounds={'quick': '8 x 8 fresh interpreters', 'thorough': 'same'}),
    Ob(id='C11.h', fn=ob_h, title='two-step histories: the first call of an interpreter (a selection naming the category, a mutated result set) does not change later queries',
       shard_of=lambda pre, a: a, shards={'quick': 8, 'thorough': 8}, budget_s={'quick': 150, 'thorough': 600}, native_body=True,
       witnesses=[{'pre': 0, 'a': 0}], min_confirmed=60, enumerated='first call (8 kinds), category (10)',
       realized_at=['fresh python interpreter per history (subprocess)'],
       bounds={'quick': '8 first calls x 10 categories; afterwards 8 query kinds on the category, its parent and its children', 'thorough': 'same'}),
    Ob(id='C11.a', fn=ob_a, title='hierarchy is a forest with each member once and the documented parents',
       budget_s={'quick': 60, 'thorough': 120}, witnesses=[{'a': 0}, {'a': 10}], min_confirmed=N,
       symbolic='category index', bounds={'quick': 'all 37 members', 'thorough': 'all 37 members'}),
    Ob(id='C11.b', fn=ob_b, title='is_child against the documented ancestor relation',
       shard_of=_shard2, shards={'quick': 8, 'thorough': 8}, budget_s={'quick': 120, 'thorough': 300},
       witnesses=[{'a': 3, 'b': 3}, {'a': 0, 'b': 5}], min_confirmed=N * N,
       symbolic='child index, parent index', bounds={'quick': 'all 37 x 37 ordered pairs', 'thorough': 'all 37 x 37 ordered pairs'},
       describe=lambda a, b: {'child': NAMES[a], 'parent': NAMES[b]}),
    Ob(id='C11.b2', fn=ob_b2, title='children / nodes / leaves against the documented tree',
       budget_s={'quick': 60, 'thorough': 120}, witnesses=[{'a': 3}], min_confirmed=N,
       symbolic='category index', bounds={'quick': 'all 37 members', 'thorough': 'all 37 members'}),
    Ob(id='C11.c', engine='E2', fn=fn_c, run=run_c, title='selection algebra for all include/exclude sets (bit-vectors)',
       symbolic='include, exclude as 37-bit vectors (all 2^37 x 2^37 pairs), None defaults as extra cases',
       bounds={'quick': 'unbounded over sets of categories; 4 + 37 queries', 'thorough': 'same, each query re-decided by z3 4.8.12 and cvc5 1.0.3'},
       budget_s={'quick': 300, 'thorough': 1200}),
    Ob(id='C11.d', fn=ob_d, title='valid() with include / exclude in every argument shape',
       shard_of=lambda i, j, k, side: (i + 1) + 40 * k, shards={'quick': 12, 'thorough': 16},
       budget_s={'quick': 150, 'thorough': 900},
       witnesses=[{'i': 5, 'j': -1, 'k': 3, 'side': True}, {'i': -1, 'j': -1, 'k': 4, 'side': False}, {'i': 3, 'j': 7, 'k': 2, 'side': False}],
       min_confirmed=500, symbolic='two member indices (-1 = absent), shape selector, include/exclude side',
       bounds={'quick': 'both members over all 37 (+absent); list/tuple/set/single/None',
               'thorough': 'both members over all 37 (+absent)'}),
    Ob(id='C11.e', fn=ob_e, title='match()/valid() for single include x single exclude x target, every shape',
       shard_of=lambda a, b, c, k: a + N * (b + 1), shards={'quick': 16, 'thorough': 16},
       budget_s={'quick': 170, 'thorough': 1500},
       witnesses=[{'a': 5, 'b': 6, 'c': 1, 'k': 0}, {'a': 3, 'b': -1, 'c': 0, 'k': 0}], min_confirmed=1000,
       symbolic='include index, exclude index (-1 = None), target index, shape',
       bounds={'quick': '37 x 38 (include, exclude) pairs x 16 targets spread over the members, list shape only (shapes are C11.d)',
               'thorough': '37 x 38 x 37 targets x 4 shapes'},
       ),
    Ob(id='C11.i', fn=ob_i, title='every set of three categories as include / exclude (nested members, any order, list / tuple / set); containers changed in place by the caller between calls',
       shard_of=lambda a, b, c: a + b, shards={'quick': 16, 'thorough': 16}, budget_s={'quick': 170, 'thorough': 900},
       witnesses=[{'a': 0, 'b': 5, 'c': 9}, {'a': 3, 'b': 4, 'c': 36}], min_confirmed=7000,
       symbolic='three member indices a < b < c', bounds={'quick': 'all C(37,3) = 7 770 sets', 'thorough': 'same, three member orders'}),
    Ob(id='C11.f', fn=ob_f, title='non-category members are rejected with ValueError',
       shard_of=lambda i, w, k, side: i, shards={'quick': 4, 'thorough': 4}, budget_s={'quick': 100, 'thorough': 300},
       witnesses=[{'i': 0, 'w': 0, 'k': 0, 'side': True}], min_confirmed=100,
       symbolic='member index, bad-member selector, shape, side',
       bounds={'quick': '37 members x 4 foreign values x 4 shapes x include/exclude', 'thorough': 'same'}),
]
