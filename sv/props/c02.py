"""C02  Import builds a spine tree that mirrors the text cell for cell.

Anchors: Importer.run, _compute_header_token, _compute_spine_operator_token,
get_last_spine_operator (importer.py); MultistageTree.add_node (document.py);
Importer.import_string (csv line reader).  Oracle: sv/ref/spinepath.py.
"""
from sv.engine import ctx
from sv.engine.ob import Ob
from sv.engine.xh import assume, check, choose, native
from sv.ref import spinepath as sp
from sv.ref import stubs

import kernpy as kp
from kernpy.core.importer import Importer
from kernpy.core import tokens as tk

META = {
    'outside': ['more than 4 live columns / 3 (quick) / 4 (thorough) operator rows, except for the 12 curated deep layouts (nested splits, several join groups on a line, 5 columns); *+ and *x; several header rows',
                'a data line with FEWER cells than live paths (the property only speaks about surplus cells)',
                'global comments inside the spines (kernpy attaches one node per live path; listing order is C17\'s)'],
    'assumptions': [],
}

HEADS = (('**kern',), ('**text',), ('**kern', '**text'), ('**kern', '**kern'), ('**dynam', '**kern'), ('**kern', '**foo'),
         ('**kern', '**kern', '**harm'), ('**kern', '**text', '**kern'))
LAYOUTS = []      # (heads, layout)


def load(tier):
    global LAYOUTS
    LAYOUTS = []
    for heads in HEADS:
        n = len(heads)
        if tier == 'quick':
            depth = {1: 3, 2: 2, 3: 2}[n]
            if n == 2 and heads not in (('**kern', '**text'), ('**kern', '**kern')):
                depth = 1
            if n == 3 and heads != HEADS[6]:
                depth = 1
        else:
            depth = {1: 4, 2: 3, 3: 2}[n]
        for lay in sp.enumerate_layouts(n, depth):
            LAYOUTS.append((heads, lay))
    # exclusive interpretations that differ from a known spine type only by letter case: they are other spine types, kept literally
    for heads in (('**Kern', '**TEXT'), ('**kern', '**Dynam', '**KERN'), ('**Text',)):
        for lay in sp.enumerate_layouts(len(heads), 1):
            LAYOUTS.append((heads, lay))
    LAYOUTS.extend(sp.curated_layouts())      # deep hand-picked layouts beyond the enumeration depth (nested splits, several join groups, 5 columns)


@native
def _coords(doc):
    pos = {}
    for si, stage in enumerate(doc.tree.stages):
        for j, n in enumerate(stage):
            pos[id(n)] = (si - 1, j)
    return pos


def _check_tree(doc, rows, model, expect_class=None, text_checked=None):
    st = doc.tree.stages
    check(len(st) - 1 == len(rows), lambda: f'{len(st) - 1} stages for {len(rows)} non-empty lines')
    pos = _coords(doc)
    for r in range(len(rows)):
        cells, stage = model[r], st[r + 1]
        check(len(cells) == len(stage), lambda: f'line {r}: {len(stage)} nodes for {len(cells)} cells')
        for c, n in zip(cells, stage):
            check(n.stage == r + 1, lambda: f'node stage {n.stage} != line {r + 1}')
            if text_checked is None or text_checked(c.text):
                check(n.token.encoding == c.text, lambda: f'line {r} col {c.col}: token text {n.token.encoding!r} != cell {c.text!r}')
            if c.parent is None:
                check(n.parent is doc.tree.root, lambda: f'line {r} col {c.col}: parent is not the root')
            else:
                got = pos.get(id(n.parent))
                check(got == c.parent, lambda: f'line {r} col {c.col} ({c.text!r}): parent cell {got}, model says {c.parent}')
            check(n in n.parent.children, lambda: f'line {r} col {c.col}: node missing from its parent\'s children')
            check(n.header_node is not None and n.header_node.token.spine_id == c.spine and n.header_node.token.encoding == c.header,
                  lambda: f'line {r} col {c.col}: header/spine id {getattr(n.header_node.token, "encoding", None)}/'
                          f'{getattr(n.header_node.token, "spine_id", None)} != {c.header}/{c.spine}')
    return True


# ------------------------------------------------------------------ C02.a every layout, real importers
BLANKS = ('no blank line', 'blank line after the header line', 'blank line in front of the last two lines', 'blank first line and two blank lines in the middle')


def _with_blanks(text, blank):
    """Empty lines are not lines of the grid: 'one stage per NON-EMPTY line'."""
    if not blank:
        return text
    ls = text.split('\n')
    body = ls[:-1] if ls[-1] == '' else ls
    if blank == 1:
        body = body[:1] + [''] + body[1:]
    elif blank == 2:
        body = body[:-2] + [''] + body[-2:]
    else:
        mid = len(body) // 2
        body = [''] + body[:mid] + ['', ''] + body[mid:]
    return '\n'.join(body) + '\n'


def ob_a(layout: int, blank: int = 0) -> bool:
    assume(0 <= layout < len(LAYOUTS))
    assume(0 <= blank < len(BLANKS))
    return _a_body(choose(layout, len(LAYOUTS)), choose(blank, len(BLANKS)))


@native
def _a_body(i, blank=0):
    heads, lay = LAYOUTS[i]
    rows = sp.build_rows(list(heads), lay)
    text = _with_blanks(sp.to_text(rows), blank)
    model = sp.analyse(rows)
    doc, errs = kp.loads(text)
    check(not errs, f'import errors {errs} on {text!r}')
    _check_tree(doc, rows, model)
    check(doc.get_spine_ids() == list(range(len(heads))), f'get_spine_ids() = {doc.get_spine_ids()}')
    known = [h for h in heads if h in tk.HEADERS]     # the default selection is the set of known types (unknown ones: C06)
    check(kp.spine_types(doc) == known, f'spine_types(doc) = {kp.spine_types(doc)}, known headers {known}')
    # every cell exactly once in the token listing
    listed = sorted(t.encoding for t in doc.get_all_tokens())
    check(listed == sorted(c for r in rows for c in r), 'get_all_tokens() does not list every cell exactly once')
    return True


# ------------------------------------------------------------------ C02.e long texts: cells the **kern parser rejects, invisible barlines
# cells the **kern grammar has no token for (a cell that BEGINS with a token and continues with other characters is C12's recorded
# finding about the EOF-less start rule and is left out here)
BAD_CELLS = ('"zz"', ',4c', '4 c', '\u00f1', '4zz', "it's", '"', ',', 'x"y', ' 4c', '??', '4h')
LONG_N = (40, 150, 400)


def ob_e(n: int, bad: int, hid: int) -> bool:
    assume(0 <= n < len(LONG_N) and 0 <= bad < 3 and 0 <= hid < 2)
    return _e_body(choose(n, len(LONG_N)), choose(bad, 3), choose(hid, 2))


@native
def _e_body(ni, bad, hid):
    """Hundreds of lines; none, every third or EVERY **kern data cell is text the **kern parser rejects (each is still a cell: one
    node, in place); every fifth line an invisible barline; one split / join pair in the middle.  One stage per line, one node per
    cell, parents by the model, every cell listed once by get_all_tokens() -- however many cells were rejected."""
    n = LONG_N[ni]
    every = (0, 3, 1)[bad]
    heads = ['**kern', '**kern', '**text']
    rows = [list(heads), ['*clefG2', '*clefF4', '*']]
    width = 3
    for i in range(n):
        if i == n // 2:
            rows.append(['*^', '*', '*'])
            width = 4
        if i == n // 2 + 7:
            rows.append(['*v', '*v', '*', '*'])
            width = 3
        extra = ['%d%s' % ((4, 8, 16)[i % 3], 'gab'[i % 3] * 2)] if width == 4 else []
        if hid and i % 5 == 4:
            rows.append(['=%d-' % i] * width)
        elif i % 16 == 7:
            rows.append(['=%d' % i] * width)
        else:
            cells = ['%d%s' % ((4, 8, 2)[i % 3], 'cdefgab'[i % 7]), '%d%s' % ((2, 4, 8)[i % 3], 'CDEFGAB'[i % 7])]
            if every and i % every == 0:
                cells = [BAD_CELLS[i % len(BAD_CELLS)], BAD_CELLS[(i + 5) % len(BAD_CELLS)]]
            rows.append([cells[0]] + extra + [cells[1], 'w%d' % i])
    rows.append(['*-'] * 3)
    text = sp.to_text(rows)
    model = sp.analyse(rows)
    doc, errs = kp.loads(text)
    n_bad = sum(1 for r in rows for c in r if c in BAD_CELLS)
    check(len(errs) <= n_bad, lambda: f'{n_bad} cells of the text are not **kern tokens, {len(errs)} errors reported')      # how many are reported is C12's subject
    _check_tree(doc, rows, model, text_checked=lambda t: not t.startswith('='))
    toks = doc.get_all_tokens()
    n_cells = sum(len(r) for r in rows)
    check(len(toks) == n_cells, lambda: f'get_all_tokens() lists {len(toks)} tokens for {n_cells} cells ({n} data lines, {n_bad} rejected cells, invisible barlines: {bool(hid)})')
    listed = sorted(t.encoding for t in toks if not t.encoding.startswith('='))
    check(listed == sorted(c for r in rows for c in r if not c.startswith('=')), 'get_all_tokens() does not list every cell exactly once')
    check(doc.get_spine_ids() == [0, 1, 2], f'get_spine_ids() = {doc.get_spine_ids()}')
    return True


# ------------------------------------------------------------------ C02.d symbolic cell payloads, stub importer
D_LAYOUTS = []


def _d_layouts():
    if not D_LAYOUTS:
        for heads in (('**text',), ('**text', '**text')):
            for lay in sp.enumerate_layouts(len(heads), 2, max_cols=3):
                D_LAYOUTS.append((heads, lay))
    return D_LAYOUTS


def ob_d(layout: int, s1: str, s2: str) -> bool:
    """Importer.run never interprets data-cell text: arbitrary strings in the data cells."""
    L = _d_layouts()
    maxlen = ctx.pick(3, 5)
    assume(0 <= layout < len(L))
    assume(1 <= len(s1) <= maxlen and 1 <= len(s2) <= maxlen)
    for s in (s1, s2):
        assume(not s.startswith('*'))
        assume(not s.startswith('!!'))       # a line whose first cell starts with !! is a global comment
    heads, lay = L[choose(layout, len(L))]
    cells = (s1, s2)
    rows = sp.build_rows(list(heads), lay, data_cell=lambda k, spn, hd: cells[k % 2])
    model = sp.analyse(rows)
    with stubs.stub_importers(lambda header: stubs.StubSpineImporter(tk.TokenCategory.LYRICS)):
        imp = Importer()
        doc = imp.run(rows)
    stubs.require_used()
    check(not imp.errors, 'errors reported')
    _check_tree(doc, rows, model)
    for r, rcells in enumerate(model):
        for c, n in zip(rcells, doc.tree.stages[r + 1]):
            if c.text is s1 or c.text is s2:
                want = tk.FieldCommentToken if c.text.startswith('!') else tk.SimpleToken
                check(type(n.token) is want, lambda: f'cell {c.text!r} became {type(n.token).__name__}')
    return True


# ------------------------------------------------------------------ C02.b the line reader takes cells literally
ALPHA_Q = ('"', "'", ',', ' ', 'a', 'é', '\\')
ALPHA_T = ('"', "'", ',', ' ', 'a', 'é', '\\', ';', '|')


@native
def _strings():
    import itertools
    alpha = ctx.pick(ALPHA_Q, ALPHA_T)
    out = []
    for n in range(1, ctx.pick(3, 4) + 1):
        for t in itertools.product(alpha, repeat=n):
            s = ''.join(t)
            if s != s.strip() and False:
                continue
            out.append(s)
    # texts that a Unicode 'clean-up' of the cells would change: not NFC (decomposed accent, ANGSTROM / OHM SIGN), full-width, a
    # soft hyphen, a zero-width joiner, a BOM inside the cell, upper / lower case pairs with special mappings
    out += ['e\u0301', 'a\u0301b', '\u212b', '\u2126', '\uff21', 'x\xady', 'a\u200db', 'a\ufeff', '\xdf', '\u0130', 'A', '\u037e']
    return out


_STR = []


def ob_b(sel: int, col: int) -> bool:
    global _STR
    if not _STR:
        _STR = _strings()
    assume(0 <= sel < len(_STR))
    assume(0 <= col < 2)
    return _b_body(choose(sel, len(_STR)), choose(col, 2))


@native
def _b_body(i, col):
    s = _STR[i]
    row = ['4c', 'la']
    row[col] = s
    if col == 0:
        heads = ['**text', '**kern']
        row = [s, '4c']
    else:
        heads = ['**kern', '**text']
    text = '\t'.join(heads) + '\n' + '\t'.join(row) + '\n' + '4d\tli\n'.replace('4d\tli', '\t'.join(['li', '4d'] if col == 0 else ['4d', 'li'])) + '*-\t*-\n'
    doc, errs = kp.loads(text)
    st = doc.tree.stages
    check(len(st) == 5, f'cell {s!r}: {len(st) - 1} stages for 4 lines (text {text!r})')
    check(len(st[2]) == 2, f'cell {s!r}: line has {len(st[2])} nodes instead of 2')
    got = st[2][col].token.encoding
    check(got == s, f'cell {s!r} was read as {got!r}')
    check(st[3][1 - col].token.encoding == '4d', f'cell {s!r}: following line mis-aligned')
    # the file reader takes the same text the same way (blank lines included)
    import os
    import tempfile
    from sv.ref.snap import snap, diff
    text2 = text.replace('*-\t*-\n', '\n*-\t*-\n\n')
    fd, path = tempfile.mkstemp(suffix='.krn', dir=os.environ.get('VERIF_TMP'))
    try:
        with os.fdopen(fd, 'w', encoding='utf-8', newline='') as f:
            f.write(text2)
        fdoc, ferrs = kp.load(path)
    finally:
        os.unlink(path)
    sdoc, serrs = kp.loads(text2)
    check(diff(snap(fdoc), snap(sdoc)) == '' and len(ferrs) == len(serrs), f'cell {s!r}: load(file) differs from loads(text) (blank lines in the text): {diff(snap(fdoc), snap(sdoc))}')
    return True


# ------------------------------------------------------------------ C02.c surplus cells are rejected
ROW_KINDS = ('data', 'field comment', 'null interpretation', 'barline', 'null token', 'split operator', 'terminator')


def ob_c(n: int, w: int, split: bool, kind: int) -> bool:
    assume(1 <= n <= 3)
    assume(1 <= w <= 5)
    assume(0 <= kind < len(ROW_KINDS))
    return _c_body(choose(n - 1, 3) + 1, choose(w - 1, 5) + 1, bool(split), choose(kind, len(ROW_KINDS)))


@native
def _c_body(n, w, split, kind):
    heads = ['**kern'] * n
    rows = [heads, [sp.NOTE_POOL[j] for j in range(n)]]
    live = n
    if split and n < 3:
        rows.append(['*^'] + ['*'] * (n - 1))
        live = n + 1
    k = ROW_KINDS[kind]
    rows.append([{'data': sp.NOTE_POOL[10 + j], 'field comment': '!c%d' % j, 'null interpretation': '*', 'barline': '=5', 'null token': '.',
                  'split operator': '*^' if j == w - 1 else '*', 'terminator': '*-'}[k] for j in range(w)])
    if k not in ('terminator',):
        rows.append([sp.NOTE_POOL[20 + j] for j in range(w + (1 if k == 'split operator' else 0))])    # a following line of the same (wrong) width
    text = sp.to_text(rows)
    try:
        doc, errs = kp.loads(text)
    except Exception:
        # rejected: fine for w > live, merely recorded for w < live.  The rejection must not leave anything behind: the next import
        # of a valid text builds exactly the tree of the model
        heads2 = ('**kern', '**text')
        lay = (('*^', '*'), ('*v', '*v', '*'))
        rows2 = sp.build_rows(list(heads2), lay)
        doc2, errs2 = kp.loads(sp.to_text(rows2))
        check(not errs2, 'errors in the import that follows a rejected import')
        _check_tree(doc2, rows2, sp.analyse(rows2))
        reach = 0
        stack = [doc2.tree.root]
        while stack:
            n = stack.pop()
            reach += 1
            stack.extend(n.children)
        check(reach == 1 + sum(len(r) for r in rows2), f'after a rejected import only {reach - 1} of {sum(len(r) for r in rows2)} cells are reachable from the root of the next document')
        return True
    check(w <= live, f'a {k} line with {w} cells for {live} live spine paths was accepted: {text!r}')
    return True


def _desc_a(layout, blank=0):
    heads, lay = LAYOUTS[layout]
    return {'text': _with_blanks(sp.to_text(sp.build_rows(list(heads), lay)), blank), 'blank lines': BLANKS[blank]}


OBLIGATIONS = [
    Ob(id='C02.a', fn=ob_a, title='every spine-operator layout x 4 blank-line plans: one stage per non-empty line, cells, parents, headers, spine ids (real importers)',
       shard_of=lambda layout, blank=0: layout, shards={'quick': 16, 'thorough': 16}, budget_s={'quick': 170, 'thorough': 2400},
       witnesses=[{'layout': 0, 'blank': 0}, {'layout': 50, 'blank': 3}], min_confirmed=300, enumerated='layout selector, blank-line plan (4)',
       bounds={'quick': '8 header sets (1-3 spines incl. an unknown type); operator rows: 3 (1 spine), 2 (2 spines: kern+text, kern+kern; 3 spines kern+kern+harm), 1 otherwise; <= 4 live columns',
               'thorough': 'operator rows: 4 (1 spine), 3 (2 spines), 2 (3 spines)'}, describe=_desc_a),
    Ob(id='C02.e', fn=ob_e, title='long texts (40 / 150 / 400 lines) in which none, every third or every **kern cell is rejected by the parser, with invisible barlines: stages, nodes, parents, token listing',
       budget_s={'quick': 170, 'thorough': 600}, native_body=True, witnesses=[{'n': 1, 'bad': 2, 'hid': 1}], min_confirmed=18,
       shard_of=lambda n, bad, hid: 2 * bad + hid, shards={'quick': 6, 'thorough': 6},
       enumerated='length (3), share of rejected cells (3), invisible barlines (2)', bounds={'quick': '3 x 3 x 2 texts, up to 400 lines / 690 rejected cells', 'thorough': 'same'}),
    Ob(id='C02.b', fn=ob_b, title='the line reader takes quotes, commas, spaces, backslashes and non-ASCII literally',
       shard_of=lambda sel, col: sel, shards={'quick': 8, 'thorough': 16}, budget_s={'quick': 120, 'thorough': 900},
       witnesses=[{'sel': 0, 'col': 1}], min_confirmed=300, enumerated='cell string selector (realised before csv.reader: the solver cannot see inside csv)',
       realized_at=['Importer.import_string -> csv.reader (C boundary)'],
       bounds={'quick': 'all strings of 1..3 characters over {", \', comma, space, a, e-acute, backslash} + 12 texts that a Unicode clean-up would change (not NFC, full-width, soft hyphen, ZWJ, BOM, special case mappings), in either column',
               'thorough': '1..4 characters, alphabet + ; |'}),
    Ob(id='C02.c', fn=ob_c, title='a line with more cells than live spine paths is rejected',
       budget_s={'quick': 60, 'thorough': 120}, witnesses=[{'n': 2, 'w': 2, 'split': False, 'kind': 0}], min_confirmed=100,
       enumerated='live paths 1..3 (+ optional split), row width 1..5, line kind (data, field comment, null interpretation, barline, null token, split operator, terminator)',
       bounds={'quick': 'n<=3, w<=5, 7 line kinds', 'thorough': 'same'}),
    Ob(id='C02.d', fn=ob_d, title='Importer.run with arbitrary data-cell text (stub spine importer): structure never depends on cell text',
       shard_of=lambda layout, s1, s2: layout, shards={'quick': 8, 'thorough': 16}, budget_s={'quick': 150, 'thorough': 1800},
       witnesses=[{'layout': 1, 's1': 'ab', 's2': '!x'}], min_confirmed=20,
       symbolic='two cell texts (arbitrary Unicode strings, 1..3 chars quick / 1..5 thorough) used for all data cells',
       enumerated='layout selector (1-2 spines, <= 2 operator rows, <= 3 columns)',
       stub_optional=True, stubs=['StubSpineImporter (SimpleToken(text, LYRICS)) in place of createImporter; rows handed to Importer.run directly (no csv)'],
       assumptions=['data cells do not start with * and the text does not start with !! (those are interpretations / global comments by Humdrum syntax)'],
       bounds={'quick': 'strings <= 3 chars', 'thorough': 'strings <= 5 chars'}),
]
