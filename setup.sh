#!/bin/sh
# Builds the tooling overlay venv used by every check.  Offline: only files on disk.
# /venv holds kernpy's own environment (editable install of /repo); the overlay adds
# crosshair-tool + z3-solver from the local wheelhouse without touching /venv.
set -e
cd "$(dirname "$0")"
V=/verif/.venv
if [ -x "$V/bin/python" ] && "$V/bin/python" -c "import crosshair, z3, kernpy, antlr4" >/dev/null 2>&1; then
    exit 0
fi
rm -rf "$V"
/venv/bin/python -m venv "$V"
SP=$("$V/bin/python" -c "import sysconfig; print(sysconfig.get_paths()['purelib'])")
echo "import site; site.addsitedir('/venv/lib/python3.12/site-packages')" > "$SP/_overlay.pth"
PIP_NO_INDEX=1 "$V/bin/pip" install --quiet --no-index --find-links /opt/veriftools/wheels crosshair-tool z3-solver
"$V/bin/python" -c "import crosshair, z3, kernpy, antlr4; print('setup ok: crosshair', crosshair.__version__, 'z3', z3.get_version_string(), 'kernpy', kernpy.__file__)"
