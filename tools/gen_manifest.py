#!/usr/bin/env python3
import json, sys
sys.path.insert(0, '/verif')
from sv.registry import CLAIMED, PENDING_REASON
base = json.load(open('/root/.vp/BASELINE.json'))
props = [json.loads(l)['id'] for l in open('/verif/properties.jsonl')]
m = {
 'version': 1,
 'setup_cmd': 'sh ./setup.sh',
 'hooks': {
  'guard': 'KERNPY_VERIF',
  'enable': 'no source hooks are needed: every observation point is reachable from Python; checks import kernpy from /repo\'s working tree (nothing to build)',
  'baseline_off_cmd': base['cmd'].replace(' --junitxml=<file>', ''),
  'source_commits': [],
  'add_only': True,
 },
 'engines': [
  {'name': 'E1', 'path': 'sv/engine/xh.py', 'serves_properties': sorted(CLAIMED),
   'kind_free_text': 'path-exhaustive symbolic execution of the real Python code: CrossHair 0.0.110 engine (symbolic proxies, z3 decides every branch) driven by our own loop with sharding, native validation of every path representative, counterexample replay'},
  {'name': 'E2', 'path': 'sv/engine/pz.py', 'serves_properties': [p for p in ('C09', 'C10', 'C11') if p in CLAIMED],
   'kind_free_text': 'Python-AST -> z3 translation of arithmetic/table/set kernels read from the live modules; negated law checked for unsat (all integer octaves / all 2^37 category sets in one query)'},
 ],
 'checks': [],
 'notes': 'Exit codes: 0 nothing refuted (KNOWN-FINDING / INCONCLUSIVE lines possible), 1 VIOLATION after native replay, 2 HARNESS-ERROR (never prints VIOLATION). Known findings: /verif/known_findings.json.',
 'not_applicable': [],
}
for p in props:
    if p in CLAIMED:
        c = CLAIMED[p]
        m['checks'].append({
            'property_id': p,
            'quick_cmd': f'./run.sh {p} quick',
            'thorough_cmd': f'./run.sh {p} thorough',
            'evidence_file': f'/verif/evidence/{p}.json',
            'replay_cmd_template': './run.sh --replay {path}',
            'engine': c.get('engine', 'E1'),
            'level_claimed': {'category': 'model_checking', 'text': c['text'], 'design_ref': 'DESIGN.md section ' + c['design']},
            'level_note': c['note'],
            'technique': c['technique'],
        })
    else:
        m['not_applicable'].append({'property_id': p, 'reason': PENDING_REASON})
json.dump(m, open('/verif/MANIFEST.json', 'w'), indent=1)
import jsonschema
jsonschema.validate(m, json.load(open('/root/.vp/MANIFEST.schema.json')))
print('MANIFEST ok: claimed', sorted(CLAIMED), 'pending', len(m['not_applicable']))
