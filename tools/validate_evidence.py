#!/usr/bin/env python3
"""Validate MANIFEST.json and every evidence file against the schemas under /root/.vp (run with python3-vt: needs jsonschema)."""
import glob, json, sys
import jsonschema
bad = 0
man = json.load(open('/verif/MANIFEST.json'))
jsonschema.validate(man, json.load(open('/root/.vp/MANIFEST.schema.json')))
sch = json.load(open('/root/.vp/EVIDENCE.schema.json'))
for c in man['checks']:
    f = c['evidence_file']
    try:
        e = json.load(open(f))
        jsonschema.validate(e, sch)
        rep = e['coverage']['obligation_reports']
        und = [o['id'] for o in rep if not o.get('decided')]
        print(f"{c['property_id']}: ok, {len(rep)} obligations, undecided {und}, violations {len(e.get('violations') or [])}, tier {e.get('tier')}")
    except Exception as ex:
        bad += 1
        print(f"{c['property_id']}: INVALID {str(ex)[:200]}")
sys.exit(1 if bad else 0)
