#!/usr/bin/env python3
"""Run the pinned suite on a kernpy tree (default /repo) and compare with BASELINE.json's stable_pass."""
import json, subprocess, sys, tempfile, os, xml.etree.ElementTree as ET
repo = sys.argv[1] if len(sys.argv) > 1 else '/repo'
base = json.load(open('/root/.vp/BASELINE.json'))
with tempfile.TemporaryDirectory() as d:
    x = os.path.join(d, 'j.xml')
    env = dict(os.environ)
    if repo != '/repo':
        env['PYTHONPATH'] = repo
    subprocess.run(['/venv/bin/python', '-m', 'pytest', '-ra', '-q', '-p', 'no:cacheprovider', '--timeout=900',
                    '--continue-on-collection-errors', f'--junitxml={x}'], cwd=repo, env=env,
                   stdout=subprocess.DEVNULL, stderr=subprocess.DEVNULL)
    passed = set()
    for tc in ET.parse(x).getroot().iter('testcase'):
        if not any(c.tag in ('failure', 'error', 'skipped') for c in tc):
            passed.add(f"{tc.get('classname')}::{tc.get('name')}")
want = set(base['stable_pass'])
missing = sorted(want - passed)
extra = sorted(passed - want)
print(f'passed={len(passed)} baseline={len(want)} missing={len(missing)} newly_passing={len(extra)}')
for m in missing: print('  MISSING', m)
for e in extra: print('  NEW', e)
sys.exit(1 if missing else 0)
