#!/bin/sh
# tools/run_all.sh [tier] [props...]  -- development helper: run checks one after the other on /repo, log exit codes
tier=${1:-quick}; shift
props=${*:-C01 C02 C03 C04 C05 C06 C07 C08 C09 C10 C11 C12 C13 C14 C15 C16 C17 C18 C19 C20}
mkdir -p /tmp/runall
for p in $props; do
  s=$(date +%s)
  /verif/run.sh $p $tier > /tmp/runall/$p.$tier.log 2>&1
  rc=$?
  echo "$p $tier exit=$rc wall=$(( $(date +%s) - s ))s $(grep -c '^INCONCLUSIVE' /tmp/runall/$p.$tier.log) inconclusive" | tee -a /tmp/runall/summary.$tier.txt
done
