#!/bin/sh
# tools/dev_mutant.sh <seeded-id> <PROP> [obligation,obligation...]   -- development tool only.
# Runs a check against a scratch worktree of /repo with the seeded patch applied (development mode: KERNPY_SRC / PYTHONPATH);
# /repo itself is not touched, so several of these can run at once.  The worktree is removed afterwards.
ID="$1"; PROP="$2"; ONLY="$3"
WT=/tmp/devmut_$ID.$$; OUT=/tmp/devmut_out/$ID.$PROP
git -C /repo worktree add -q --detach $WT HEAD || exit 9
git -C $WT apply /verif/seeded/$ID/patch.diff || { echo "patch does not apply"; git -C /repo worktree remove --force $WT; exit 9; }
mkdir -p $OUT/ev $OUT/rp
PYTHONPATH=$WT:/verif KERNPY_SRC=$WT VERIF_EVIDENCE_DIR=$OUT/ev VERIF_REPLAY_DIR=$OUT/rp VERIF_ONLY="$ONLY" PYTHONDONTWRITEBYTECODE=1 PYTHONHASHSEED=0 \
  /verif/.venv/bin/python -m sv.main $PROP quick > $OUT/log 2>&1
rc=$?
git -C /repo worktree remove --force $WT
echo "$ID $PROP exit=$rc"; grep "counterexample" $OUT/log | head -2 | cut -c1-500; grep "HARNESS\|INCONCLUSIVE" $OUT/log | head -3 | cut -c1-300; tail -1 $OUT/log | cut -c1-200
