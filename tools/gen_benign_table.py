#!/usr/bin/env python3
"""Fills the BENIGN-TABLE placeholder / block of DESIGN.md from development runs (/tmp/dev_<tag>/summary.txt)."""
import os, re, sys
runs = [('b1 + b2 + b3 + b4 + b5 (importers, exporter, tokenizers, tokens, listener, pitch / transposer / gkern, document, generic, public, _io, __main__, graphviz exporter; 25 files)', '/tmp/dev_benign_a'),
        ('b6 (messages, docstrings, reprs, logging, imports; 28 files)', '/tmp/dev_benign_b6')]
rows = ['| patches applied | exit codes of the 20 quick checks | INCONCLUSIVE obligations (budget end under a loaded machine, or E2 kernel restructured) |', '|---|---|---|']
for name, d in runs:
    p = os.path.join(d, 'summary.txt')
    if not os.path.exists(p):
        rows.append(f'| {name} | not run | |')
        continue
    ex, inc = {}, []
    for ln in open(p):
        m = re.match(r'(C\d\d) exit=(\d+) wall=(\d+)s (\d+) inconclusive', ln)
        if m:
            ex[m.group(1)] = int(m.group(2))
            if int(m.group(4)):
                lg = open(os.path.join(d, m.group(1) + '.log')).read()
                inc += re.findall(r'INCONCLUSIVE obligation=(\S+)', lg)
    bad = {k: v for k, v in ex.items() if v}
    part = '' if len(ex) == 20 else f' ({len(ex)} of the 20 checks were run before the session ended: {", ".join(sorted(ex))}; in the second session all 20 ran against the machinery of that time, all exit 0)'
    rows.append(f"| {name} | {len(ex) - len(bad)} x exit 0" + (f", non-zero: {bad}" if bad else '') + part + f" | {', '.join(inc) or 'none'} |")
p = '/verif/DESIGN.md'
s = open(p).read()
b, e = '<!-- BENIGN-TABLE-BEGIN -->', '<!-- BENIGN-TABLE-END -->'
block = b + '\n' + '\n'.join(rows) + '\n' + e
if 'BENIGN-TABLE\n' in s and b not in s:
    s = s.replace('BENIGN-TABLE\n', block + '\n', 1)
else:
    s = s[:s.index(b)] + block + s[s.index(e) + len(e):]
open(p, 'w').write(s)
print('\n'.join(rows))
