#!/bin/sh
# tools/try_mutant.sh <patch.diff> <PROP> [quick|thorough] [extra env]   -- apply to /repo, run the check, undo.  Development tool only.
P="$1"; ID="$2"; TIER="${3:-quick}"
cd /repo || exit 9
git diff --quiet || { echo "repo not clean"; exit 9; }
git apply "$P" || { echo "patch does not apply"; exit 9; }
cd /verif
./run.sh "$ID" "$TIER" > /tmp/w/mut_$ID.log 2>&1; rc=$?
git -C /repo checkout -- . ; git -C /repo clean -fdq kernpy 2>/dev/null
echo "exit=$rc"; grep -c VIOLATION /tmp/w/mut_$ID.log; grep "counterexample" /tmp/w/mut_$ID.log | head -2 | cut -c1-400; grep "HARNESS\|INCONCLUSIVE" /tmp/w/mut_$ID.log | head -3 | cut -c1-300; tail -1 /tmp/w/mut_$ID.log | cut -c1-200
