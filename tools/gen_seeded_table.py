#!/usr/bin/env python3
"""Rewrites the seeded-change table of DESIGN.md (between the SEEDED-TABLE markers) from /verif/seeded/*/meta.json."""
import glob, json, os, re
rows = []
n = det = 0
for d in sorted(glob.glob('/verif/seeded/*-m*'), key=lambda p: (p.split('/')[-1].split('-')[0], int(p.rsplit('-m', 1)[1]))):
    m = json.load(open(os.path.join(d, 'meta.json')))
    name = os.path.basename(d)
    what = (m.get('needs_to_manifest') or '').strip().replace('\n', ' ').replace('|', '/')
    what = re.sub(r'\s+', ' ', what)[:240]
    n += 1
    if m.get('detected'):
        det += 1
        by = ', '.join(m.get('detected_by') or []) or 'exit 1'
    else:
        by = '**not flagged** (' + (m.get('not_flagged_reason') or 'see text') + ')'
    rows.append(f'| `{name}` | {by} | {what} |')
table = '\n'.join(['| seeded change | detected by (quick tier) | what it is (from the author\'s README) |', '|---|---|---|'] + rows)
p = '/verif/DESIGN.md'
s = open(p).read()
b, e = '<!-- SEEDED-TABLE-BEGIN -->', '<!-- SEEDED-TABLE-END -->'
assert b in s and e in s
s = s[:s.index(b) + len(b)] + f'\n\n{n} seeded changes kept, {det} detected by the quick tier.\n\n' + table + '\n\n' + s[s.index(e):]
open(p, 'w').write(s)
print(n, det)
