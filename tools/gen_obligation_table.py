#!/usr/bin/env python3
"""Fills the OBLIGATION-TABLE block of DESIGN.md from the committed evidence files (quick tier, unchanged tree)."""
import glob, json
rows = ['| obligation | engine | what is decided | truly symbolic | solver-enumerated | bound (quick) | paths / queries | solver s |', '|---|---|---|---|---|---|---|---|']
tot_p = tot_q = 0
n = 0
for f in sorted(glob.glob('/verif/evidence/C*.json')):
    e = json.load(open(f))
    for o in e['coverage']['obligation_reports']:
        n += 1
        p = o.get('paths')
        q = o.get('solver_queries') if o.get('solver_queries') is not None else o.get('queries')
        tot_p += p or 0
        tot_q += q or 0
        cell = lambda x: str(x if x not in (None, '') else '-').replace('|', '/').replace('\n', ' ')
        rows.append(f"| {o['id']} | {cell(o.get('engine'))} | {cell(o['title'])} | {cell(o.get('symbolic'))} | {cell(o.get('solver_enumerated'))} | {cell(o.get('bounds'))} | "
                    f"{cell(p)} / {cell(q)} | {cell(o.get('solver_s'))} |")
head = f'{n} obligations; {tot_p} execution paths and {tot_q} solver queries in one quick run of all 20 checks on the unchanged tree.\n'
p = '/verif/DESIGN.md'
s = open(p).read()
b, e_ = '<!-- OBLIGATION-TABLE-BEGIN -->', '<!-- OBLIGATION-TABLE-END -->'
block = b + '\n\n' + head + '\n' + '\n'.join(rows) + '\n\n' + e_
s = s[:s.index(b)] + block + s[s.index(e_) + len(e_):]
open(p, 'w').write(s)
print(head)
