#!/usr/bin/env python3
"""tools/adopt_mutant.py <PROP> <m> [tier]

Development tool (never part of a registered check).  Confirms a seeded change produced by an
independent sub-agent (/tmp/wt_out/<PROP>/<m>/{patch.diff,demo.py,README.txt}):
  1. in a scratch worktree of /repo (removed afterwards): the patch applies, the pinned suite still
     passes (276), the demonstration fails with the change and passes without it;
  2. applies the patch to /repo, runs ./run.sh <PROP> <tier>, undoes it straight afterwards;
  3. stores everything under /verif/seeded/<PROP>-<m>/ with meta.json.
"""
import json
import os
import shutil
import subprocess
import sys
import time

prop, m = sys.argv[1], sys.argv[2]
tier = sys.argv[3] if len(sys.argv) > 3 else 'quick'
check_props = sys.argv[4].split(',') if len(sys.argv) > 4 else [prop]
src = os.environ.get('MUT_ROOT', '/tmp/wt_out') + f'/{prop}/{m}'
dst = f'/verif/seeded/{prop}-{m}'
wt = f'/tmp/wtv_{prop}_{m}'
PY = '/venv/bin/python'


def sh(cmd, **kw):
    return subprocess.run(cmd, shell=True, capture_output=True, text=True, **kw)


meta = {'breaks_property': prop, 'source': 'independent sub-agent given only the property text and its own scratch worktree',
        'confirmed_at': time.strftime('%Y-%m-%d %H:%M:%S'), 'repo_head': sh('git -C /repo rev-parse --short HEAD').stdout.strip()}
os.makedirs(dst, exist_ok=True)
for f in ('patch.diff', 'demo.py', 'README.txt'):
    if os.path.exists(f'{src}/{f}'):
        shutil.copy(f'{src}/{f}', f'{dst}/{f}')
meta['needs_to_manifest'] = open(f'{dst}/README.txt').read().strip() if os.path.exists(f'{dst}/README.txt') else ''

sh(f'git -C /repo worktree remove --force {wt}')
r = sh(f'git -C /repo worktree add -q --detach {wt} HEAD')
try:
    a = sh(f'git -C {wt} apply {dst}/patch.diff')
    meta['patch_applies'] = a.returncode == 0
    if a.returncode != 0:
        meta['apply_error'] = a.stderr[-500:]
    else:
        b = sh(f'{PY} /verif/tools/check_baseline.py {wt}')
        meta['baseline_with_change'] = b.stdout.strip().split('\n')[0]
        meta['baseline_ok'] = b.returncode == 0
        d1 = sh(f'{PY} {dst}/demo.py', env={**os.environ, 'PYTHONPATH': wt}, cwd='/tmp')
        meta['demo_with_change_exit'] = d1.returncode
        meta['demo_with_change_output'] = (d1.stdout + d1.stderr)[-600:]
        sh(f'git -C {wt} checkout -- .')
        d0 = sh(f'{PY} {dst}/demo.py', env={**os.environ, 'PYTHONPATH': wt}, cwd='/tmp')
        meta['demo_without_change_exit'] = d0.returncode
finally:
    sh(f'git -C /repo worktree remove --force {wt}')
    shutil.rmtree(wt, ignore_errors=True)

meta['confirmed'] = bool(meta.get('patch_applies') and meta.get('baseline_ok') and meta.get('demo_with_change_exit') == 1
                         and meta.get('demo_without_change_exit') == 0)
meta['checks_run'] = []
if meta['confirmed']:
    assert sh('git -C /repo diff --quiet').returncode == 0, '/repo not clean'
    for cp in check_props:
        sh(f'git -C /repo apply {dst}/patch.diff')
        try:
            t0 = time.time()
            c = sh(f'./run.sh {cp} {tier}', cwd='/verif', env={**os.environ, 'VERIF_EVIDENCE_DIR': '/tmp/verif_mutant_evidence'})
        finally:
            sh('git -C /repo checkout -- .')
            sh('git -C /repo clean -fdq kernpy')
        out = c.stdout
        meta['checks_run'].append({
            'cmd': f'./run.sh {cp} {tier}', 'exit': c.returncode, 'wall_s': round(time.time() - t0, 1),
            'violation_lines': [ln for ln in out.split('\n') if ln.startswith('VIOLATION')][:3],
            'counterexamples': [ln.strip()[:500] for ln in out.split('\n') if ln.strip().startswith('counterexample')][:3],
            'other': [ln[:300] for ln in out.split('\n') if ln.startswith(('HARNESS-ERROR', 'INCONCLUSIVE'))][:4]})
    meta['detected'] = any(c['exit'] == 1 for c in meta['checks_run'])
    meta['detected_by'] = sorted({ce.split('obligation=')[1].split(' ')[0] for c in meta['checks_run'] for ce in c['counterexamples'] if 'obligation=' in ce})
json.dump(meta, open(f'{dst}/meta.json', 'w'), indent=1, ensure_ascii=False)
print(prop, m, 'confirmed' if meta['confirmed'] else 'NOT CONFIRMED', 'detected=%s' % meta.get('detected'), meta.get('detected_by'),
      [c['exit'] for c in meta['checks_run']])
if not meta['confirmed']:
    print({k: meta.get(k) for k in ('patch_applies', 'apply_error', 'baseline_with_change', 'demo_with_change_exit', 'demo_without_change_exit')})
